package main

// C14 (ii) — programs of the MiniGo fragment (coq/Lang/MiniGo.v): generated as an AST, printed as Go source
// for the real compiler and the Go toolchain and as a Coq term for the model; the real bytecode is decoded
// into the instruction type of coq/Lang/Target.v.

import (
	"encoding/binary"
	"fmt"
	"math/big"
	"path/filepath"
	"strings"

	"github.com/nspcc-dev/neo-go/pkg/encoding/bigint"
	"github.com/nspcc-dev/neo-go/pkg/vm/opcode"
	"github.com/nspcc-dev/neo-go/pkg/vm/stackitem"
)

// ---------- AST (mirrors the Coq inductives) ----------

type mgExpr struct {
	K    string // lit bool var neg not paren bin and or call
	Z    int64
	B    bool
	X    int
	Op   string // Add Sub Mul Div Mod Lt Le Gt Ge Eq Ne
	A, C *mgExpr
	F    int
	Args []*mgExpr
}

type mgStmt struct {
	K          string // skip seq decl asg opasg inc dec if ifelse for break continue return block call callasg
	X          int
	Op         string
	E          *mgExpr
	Es         []*mgExpr // return: all operands when the function has several results
	F          int       // call, callasg: callee
	Name       string    // its Go name
	Args       []*mgExpr
	Decl       bool       // callasg: := or =
	Xs         []int      // callasg: targets, -1 is the blank identifier
	Clauses    []mgClause // switch (E: the tag, nil for a switch without tag)
	Default    []*mgStmt
	HasDefault bool
	S1, S2, S3 *mgStmt // seq: S1 S2; if: S1; ifelse: S1 S2; for: init S1, post S2, body S3; block: S1
	L          []*mgStmt
}

type mgClause struct {
	Num  bool // integer comparison (the tag is an int); otherwise boolean
	Es   []*mgExpr
	Body []*mgStmt
}

type mgFunc struct {
	Params  []int
	PTypes  []string
	Ret     string
	Rets    []string // several results (then Ret is empty and the function is not exported)
	Name    string
	Body    []*mgStmt
	nextVar int
}

var mgGoOp = map[string]string{"Add": "+", "Sub": "-", "Mul": "*", "Div": "/", "Mod": "%",
	"Lt": "<", "Le": "<=", "Gt": ">", "Ge": ">=", "Eq": "==", "Ne": "!="}

func mgPrec(e *mgExpr) int {
	switch e.K {
	case "bin":
		switch e.Op {
		case "Mul", "Div", "Mod":
			return 5
		case "Add", "Sub":
			return 4
		default:
			return 3
		}
	case "and":
		return 2
	case "or":
		return 1
	}
	return 9
}

// Go source; the generator inserts explicit paren nodes wherever Go's precedence needs them, so printing
// adds none and the parser gives back exactly this tree
func (e *mgExpr) goSrc() string {
	switch e.K {
	case "lit":
		return fmt.Sprint(e.Z)
	case "bool":
		return fmt.Sprint(e.B)
	case "var":
		return fmt.Sprintf("v%d", e.X)
	case "neg":
		return "-" + e.A.goSrc()
	case "not":
		return "!" + e.A.goSrc()
	case "paren":
		return "(" + e.A.goSrc() + ")"
	case "bin":
		return e.A.goSrc() + " " + mgGoOp[e.Op] + " " + e.C.goSrc()
	case "and":
		return e.A.goSrc() + " && " + e.C.goSrc()
	case "or":
		return e.A.goSrc() + " || " + e.C.goSrc()
	case "call":
		as := make([]string, len(e.Args))
		for i, a := range e.Args {
			as[i] = a.goSrc()
		}
		return fmt.Sprintf("F%d(%s)", e.F, strings.Join(as, ", "))
	}
	panic("mgExpr kind " + e.K)
}

func coqZs(z int64) string {
	if z < 0 {
		return fmt.Sprintf("(%d)", z)
	}
	return fmt.Sprint(z)
}

func (e *mgExpr) coq() string {
	switch e.K {
	case "lit":
		return "ELit " + coqZs(e.Z)
	case "bool":
		return "EBool " + fmt.Sprint(e.B)
	case "var":
		return fmt.Sprintf("V %d", e.X)
	case "neg":
		return "ENeg (" + e.A.coq() + ")"
	case "not":
		return "ENot (" + e.A.coq() + ")"
	case "paren":
		return "EParen (" + e.A.coq() + ")"
	case "bin":
		return "EBin " + e.Op + " (" + e.A.coq() + ") (" + e.C.coq() + ")"
	case "and":
		return "EAnd (" + e.A.coq() + ") (" + e.C.coq() + ")"
	case "or":
		return "EOr (" + e.A.coq() + ") (" + e.C.coq() + ")"
	case "call":
		as := make([]string, len(e.Args))
		for i, a := range e.Args {
			as[i] = a.coq()
		}
		return fmt.Sprintf("Call %d [%s]", e.F, strings.Join(as, "; "))
	}
	panic("mgExpr kind " + e.K)
}

func mgArgs(args []*mgExpr) string {
	as := make([]string, len(args))
	for i, a := range args {
		as[i] = a.goSrc()
	}
	return strings.Join(as, ", ")
}

func mgCoqArgs(args []*mgExpr) string {
	as := make([]string, len(args))
	for i, a := range args {
		as[i] = a.coq()
	}
	return "[" + strings.Join(as, "; ") + "]"
}

func mgGoBlock(sb *strings.Builder, l []*mgStmt, ind int) {
	for _, s := range l {
		s.goSrc(sb, ind)
	}
}

func (s *mgStmt) simple() string {
	switch s.K {
	case "skip":
		return ""
	case "decl":
		return fmt.Sprintf("v%d := %s", s.X, s.E.goSrc())
	case "asg":
		return fmt.Sprintf("v%d = %s", s.X, s.E.goSrc())
	case "opasg":
		return fmt.Sprintf("v%d %s= %s", s.X, mgGoOp[s.Op], s.E.goSrc())
	case "inc":
		return fmt.Sprintf("v%d++", s.X)
	case "dec":
		return fmt.Sprintf("v%d--", s.X)
	case "call":
		return s.Name + "(" + mgArgs(s.Args) + ")"
	case "callasg":
		xs := make([]string, len(s.Xs))
		for i, x := range s.Xs {
			xs[i] = "_"
			if x >= 0 {
				xs[i] = fmt.Sprintf("v%d", x)
			}
		}
		op := "="
		if s.Decl {
			op = ":="
		}
		return strings.Join(xs, ", ") + " " + op + " " + s.Name + "(" + mgArgs(s.Args) + ")"
	}
	panic("not a simple statement: " + s.K)
}

func (s *mgStmt) goSrc(sb *strings.Builder, ind int) {
	tab := strings.Repeat("\t", ind)
	switch s.K {
	case "skip":
	case "decl", "asg", "opasg", "inc", "dec", "call", "callasg":
		sb.WriteString(tab + s.simple() + "\n")
	case "if", "ifelse":
		sb.WriteString(tab)
		cur := s
		for {
			sb.WriteString("if " + cur.E.goSrc() + " {\n")
			mgGoBlock(sb, cur.S1.L, ind+1)
			if cur.K == "if" {
				sb.WriteString(tab + "}\n")
				return
			}
			if cur.S2.K == "if" || cur.S2.K == "ifelse" {
				sb.WriteString(tab + "} else ")
				cur = cur.S2
				continue
			}
			sb.WriteString(tab + "} else {\n")
			mgGoBlock(sb, cur.S2.L, ind+1)
			sb.WriteString(tab + "}\n")
			return
		}
	case "for":
		if s.S1.K == "skip" && s.S2.K == "skip" {
			sb.WriteString(tab + "for " + s.E.goSrc() + " {\n")
		} else {
			sb.WriteString(tab + "for " + s.S1.simple() + "; " + s.E.goSrc() + "; " + s.S2.simple() + " {\n")
		}
		mgGoBlock(sb, s.S3.L, ind+1)
		sb.WriteString(tab + "}\n")
	case "break":
		sb.WriteString(tab + "break\n")
	case "continue":
		sb.WriteString(tab + "continue\n")
	case "return":
		if s.Es != nil {
			sb.WriteString(tab + "return " + mgArgs(s.Es) + "\n")
		} else {
			sb.WriteString(tab + "return " + s.E.goSrc() + "\n")
		}
	case "block":
		sb.WriteString(tab + "{\n")
		mgGoBlock(sb, s.L, ind+1)
		sb.WriteString(tab + "}\n")
	case "switch":
		if s.E != nil {
			sb.WriteString(tab + "switch " + s.E.goSrc() + " {\n")
		} else {
			sb.WriteString(tab + "switch {\n")
		}
		for _, c := range s.Clauses {
			sb.WriteString(tab + "case " + mgArgs(c.Es) + ":\n")
			mgGoBlock(sb, c.Body, ind+1)
		}
		if s.HasDefault {
			sb.WriteString(tab + "default:\n")
			mgGoBlock(sb, s.Default, ind+1)
		}
		sb.WriteString(tab + "}\n")
	default:
		panic("mgStmt kind " + s.K)
	}
}

func mgCoqSeq(l []*mgStmt) string {
	xs := make([]string, len(l))
	for i, s := range l {
		xs[i] = s.coq()
	}
	return "Seq [" + strings.Join(xs, "; ") + "]"
}

func (s *mgStmt) coq() string {
	switch s.K {
	case "skip":
		return "SSkip"
	case "decl":
		return fmt.Sprintf("Decl %d (%s)", s.X, s.E.coq())
	case "asg":
		return fmt.Sprintf("Asg %d (%s)", s.X, s.E.coq())
	case "opasg":
		return fmt.Sprintf("OpAsg %d %s (%s)", s.X, s.Op, s.E.coq())
	case "inc":
		return fmt.Sprintf("Inc %d", s.X)
	case "dec":
		return fmt.Sprintf("Dec %d", s.X)
	case "call":
		return fmt.Sprintf("CallS %d %s", s.F, mgCoqArgs(s.Args))
	case "callasg":
		xs := make([]string, len(s.Xs))
		for i, x := range s.Xs {
			xs[i] = coqZs(int64(x))
		}
		return fmt.Sprintf("CallAsg %v [%s] %d %s", s.Decl, strings.Join(xs, "; "), s.F, mgCoqArgs(s.Args))
	case "if":
		return "SIf (" + s.E.coq() + ") (" + mgCoqSeq(s.S1.L) + ")"
	case "ifelse":
		els := ""
		if s.S2.K == "if" || s.S2.K == "ifelse" {
			els = s.S2.coq()
		} else {
			els = mgCoqSeq(s.S2.L)
		}
		return "SIfElse (" + s.E.coq() + ") (" + mgCoqSeq(s.S1.L) + ") (" + els + ")"
	case "for":
		return "SFor (" + s.S1.coq() + ") (" + s.E.coq() + ") (" + s.S2.coq() + ") (" + mgCoqSeq(s.S3.L) + ")"
	case "break":
		return "SBreak"
	case "continue":
		return "SContinue"
	case "return":
		if s.Es != nil {
			return "SReturn " + mgCoqArgs(s.Es)
		}
		return "SReturn [" + s.E.coq() + "]"
	case "block":
		return "SBlock (" + mgCoqSeq(s.L) + ")"
	case "switch":
		tag := "None"
		if s.E != nil {
			tag = "(Some (" + s.E.coq() + "))"
		}
		cs := make([]string, len(s.Clauses))
		for i, c := range s.Clauses {
			cs[i] = fmt.Sprintf("(%v, %s, %s)", c.Num, mgCoqArgs(c.Es), mgCoqSeq(c.Body))
		}
		d := "None"
		if s.HasDefault {
			d = "(Some (" + mgCoqSeq(s.Default) + "))"
		}
		return "Switch " + tag + " [" + strings.Join(cs, "; ") + "] " + d
	}
	panic("mgStmt kind " + s.K)
}

type mgProg struct {
	Funcs []*mgFunc
}

func (p *mgProg) goSrc(pkg string) string {
	var sb strings.Builder
	sb.WriteString("package " + pkg + "\n\n")
	for _, f := range p.Funcs {
		ps := make([]string, len(f.Params))
		for j := range f.Params {
			ps[j] = fmt.Sprintf("v%d %s", f.Params[j], f.PTypes[j])
		}
		ret := f.Ret
		if f.Rets != nil {
			ret = "(" + strings.Join(f.Rets, ", ") + ")"
		}
		fmt.Fprintf(&sb, "func %s(%s) %s {\n", f.Name, strings.Join(ps, ", "), ret)
		mgGoBlock(&sb, f.Body, 1)
		sb.WriteString("}\n\n")
	}
	return sb.String()
}

func (p *mgProg) coq() string {
	fs := make([]string, len(p.Funcs))
	for i, f := range p.Funcs {
		ps := make([]string, len(f.Params))
		for j, x := range f.Params {
			ps[j] = fmt.Sprint(x)
		}
		fs[i] = fmt.Sprintf("Fn [%s] %d (%s)", strings.Join(ps, "; "), max(1, len(f.Rets)), mgCoqSeq(f.Body))
	}
	return "[" + strings.Join(fs, ";\n    ") + "]"
}

// ---------- generator ----------

// mgCostBudget bounds the statically estimated work of one call of a generated function (in statement units; a
// unit is a few VM instructions), so that runs stay far below the step limit of the harness.
const mgCostBudget = 30000

type mgVar struct {
	id  int
	typ string
	ro  bool
}

type mgGen struct {
	r      *rng
	prog   *mgProg
	fidx   int
	f      *mgFunc
	scopes [][]mgVar
	inLoop int
	sigs   []mgSig // signature of every function of the program (fixed up front)
	rec    bool    // the function being generated is the recursive one
	feat   map[string]int
	// static bound on the work of a run: cost of the function being generated, product of the iteration bounds of the
	// enclosing loops, cost of the functions generated so far (callees are generated before their callers)
	cost, mult float64
	swTotal    int // nesting of switches (return drops that many tags; four or more would use PACK)
	swInner    int // switches entered since the innermost loop: break is allowed, continue drops them
	fcost      []float64
}

type mgSig struct {
	ptypes []string
	ret    string
	rets   []string // several results: called only through a multiple assignment or a call statement
	rec    bool
	used   bool
}

func mgName(i int, sig mgSig) string {
	if sig.rets != nil {
		return fmt.Sprintf("f%d", i) // exported functions may have one result only
	}
	return fmt.Sprintf("F%d", i)
}

func (g *mgGen) vars(typ string, assignable bool) []mgVar {
	var out []mgVar
	seen := map[int]bool{} // a name declared again in an inner scope hides the outer one, whatever its type
	for i := len(g.scopes) - 1; i >= 0; i-- {
		sc := g.scopes[i]
		for j := len(sc) - 1; j >= 0; j-- {
			v := sc[j]
			if seen[v.id] {
				continue
			}
			seen[v.id] = true
			if v.typ == typ && (!assignable || !v.ro) {
				out = append(out, v)
			}
		}
	}
	for i, j := 0, len(out)-1; i < j; i, j = i+1, j-1 {
		out[i], out[j] = out[j], out[i]
	}
	return out
}

func mgLit(z int64) *mgExpr {
	if z < 0 {
		return &mgExpr{K: "neg", A: &mgExpr{K: "lit", Z: -z}}
	}
	return &mgExpr{K: "lit", Z: z}
}
func mgVarE(x int) *mgExpr                  { return &mgExpr{K: "var", X: x} }
func mgParen(e *mgExpr) *mgExpr             { return &mgExpr{K: "paren", A: e} }
func mgBin(op string, a, c *mgExpr) *mgExpr { return &mgExpr{K: "bin", Op: op, A: a, C: c} }

func (e *mgExpr) isConst() bool {
	switch e.K {
	case "lit", "bool":
		return true
	case "neg", "not", "paren":
		return e.A.isConst()
	case "bin", "and", "or":
		return e.A.isConst() && e.C.isConst()
	}
	return false
}

// wrap a child for a binary operator of precedence p (right operand: strictly higher precedence needed)
func mgChild(e *mgExpr, p int, right bool) *mgExpr {
	q := mgPrec(e)
	if q < p || (right && q == p) {
		return mgParen(e)
	}
	return e
}

func (g *mgGen) mkBin(op string, a, c *mgExpr) *mgExpr {
	e := mgBin(op, nil, nil)
	p := mgPrec(e)
	e.A, e.C = mgChild(a, p, false), mgChild(c, p, true)
	if e.A.isConst() && e.C.isConst() { // go/types would fold it: keep one side variable
		vs := g.vars("int", false)
		if len(vs) == 0 {
			if mgPrec(e) == 3 { // a comparison: boolean constant
				return &mgExpr{K: "bool", B: g.r.bool()}
			}
			return mgLit(int64(g.r.intn(1000)))
		}
		e.A = mgVarE(vs[g.r.intn(len(vs))].id)
	}
	return e
}

func (g *mgGen) intLeaf() *mgExpr {
	if vs := g.vars("int", false); len(vs) > 0 && g.r.chance(70) {
		return mgVarE(vs[g.r.intn(len(vs))].id)
	}
	return mgLit([]int64{0, 1, 2, 3, 5, 7, 10, 16, 17, 100, 255, 1000, -1, -4, 70000}[g.r.intn(15)])
}

// an int expression; bounded: operands are variables (|x| <= c14M by construction) or small, results of
// products and sums are reduced where assigned
func (g *mgGen) genInt(d int) *mgExpr {
	if d <= 0 || g.r.chance(25) {
		return g.intLeaf()
	}
	switch g.r.intn(12) {
	case 0, 1, 2:
		return g.mkBin(pick(g.r, []string{"Add", "Sub"}), g.genInt(d-1), g.genInt(d-1))
	case 3, 4:
		// a product of two reduced factors
		a := g.mkBin("Mod", g.genInt(d-1), mgLit(1009))
		return g.mkBin("Mul", a, g.genInt(d-1))
	case 5:
		k := int64(2 + g.r.intn(9))
		return g.mkBin("Div", g.genInt(d-1), g.mkBin("Add", g.mkBin("Mod", g.genInt(d-1), mgLit(k)), mgLit(k+1)))
	case 6:
		return g.mkBin(pick(g.r, []string{"Div", "Mod"}), g.genInt(d-1), mgLit([]int64{1, 2, 3, 7, 10, -3}[g.r.intn(6)]))
	case 7:
		if vs := g.vars("int", false); len(vs) > 0 && g.r.chance(20) {
			g.feat["raw-div"]++ // a variable divisor: may be zero at run time (a constant zero is a compile error)
			return g.mkBin(pick(g.r, []string{"Div", "Mod"}), g.genInt(d-1), mgVarE(vs[g.r.intn(len(vs))].id))
		}
		a := g.genInt(d - 1)
		if a.K == "neg" || mgPrec(a) < 9 {
			a = mgParen(a)
		}
		return &mgExpr{K: "neg", A: a}
	case 8, 9:
		if e := g.genCall("int", d-1); e != nil {
			return e
		}
		return g.intLeaf()
	default:
		return mgParen(g.genInt(d - 1))
	}
}

// the value fits a variable again
func (g *mgGen) genIntFit(d int) *mgExpr {
	e := g.genInt(d)
	if e.K == "var" || e.K == "lit" || (e.K == "call") {
		return e
	}
	return g.mkBin("Mod", e, mgLit(c14M))
}

func (g *mgGen) genBool(d int) *mgExpr {
	if d <= 0 {
		if vs := g.vars("bool", false); len(vs) > 0 && g.r.chance(40) {
			return mgVarE(vs[g.r.intn(len(vs))].id)
		}
		return g.mkBin(pick(g.r, []string{"Lt", "Le", "Gt", "Ge", "Eq", "Ne"}), g.intLeaf(), g.intLeaf())
	}
	switch g.r.intn(10) {
	case 0, 1, 2:
		return g.mkBin(pick(g.r, []string{"Lt", "Le", "Gt", "Ge", "Eq", "Ne"}), g.genInt(d-1), g.genInt(d-1))
	case 3, 4:
		g.feat["and"]++
		e := &mgExpr{K: "and"}
		e.A, e.C = mgChild(g.genBool(d-1), 2, false), mgChild(g.genBool(d-1), 2, true)
		if e.isConst() { // go/types would fold it
			e.C = mgChild(g.genBool(0), 2, true)
		}
		return e
	case 5, 6:
		g.feat["or"]++
		e := &mgExpr{K: "or"}
		e.A, e.C = mgChild(g.genBool(d-1), 1, false), mgChild(g.genBool(d-1), 1, true)
		if e.isConst() {
			e.C = mgChild(g.genBool(0), 1, true)
		}
		return e
	case 7:
		a := g.genBool(d - 1)
		if mgPrec(a) < 9 || a.K == "not" {
			a = mgParen(a)
		}
		return &mgExpr{K: "not", A: a}
	case 8:
		if e := g.genCall("bool", d-1); e != nil {
			return e
		}
		return g.genBool(0)
	default:
		if g.r.chance(30) {
			return &mgExpr{K: "bool", B: g.r.bool()}
		}
		return mgParen(g.genBool(d - 1))
	}
}

func (g *mgGen) genOf(t string, d int) *mgExpr {
	if t == "bool" {
		return g.genBool(d)
	}
	return g.genIntFit(d)
}

// calls go to later functions only (no cycles), except the self call of the recursive template
func (g *mgGen) genCall(ret string, d int) *mgExpr {
	if g.inLoop >= 2 { // keeps the cost of a run bounded (calls multiply through nested loops)
		return nil
	}
	self := 1.0
	if g.rec {
		self = 8 // the body of the recursive template runs at most seven times
	}
	var cands []int
	for j := g.fidx + 1; j < len(g.sigs); j++ {
		if g.sigs[j].rets == nil && g.sigs[j].ret == ret && (g.cost+g.fcost[j]*g.mult)*self <= mgCostBudget {
			cands = append(cands, j)
		}
	}
	if len(cands) == 0 {
		return nil
	}
	j := cands[g.r.intn(len(cands))]
	g.cost += g.fcost[j] * g.mult
	g.feat["call"]++
	e := &mgExpr{K: "call", F: j}
	for k, t := range g.sigs[j].ptypes {
		if g.sigs[j].rec && k == 0 {
			// the recursion counter: small
			a := g.mkBin("Mod", g.genInt(d-1), mgLit(7))
			if a.isConst() { // mkBin fell back to a literal: keep the recursion shallow
				a = mgLit(int64(g.r.intn(7)))
			}
			e.Args = append(e.Args, a)
			continue
		}
		e.Args = append(e.Args, g.genOf(t, d-1))
	}
	return e
}

func (g *mgGen) declare(typ string, ro bool) mgVar {
	v := mgVar{id: g.f.nextVar, typ: typ, ro: ro}
	g.f.nextVar++
	return v
}
func (g *mgGen) bind(v mgVar) { g.scopes[len(g.scopes)-1] = append(g.scopes[len(g.scopes)-1], v) }

func (g *mgGen) block(n int, budget *int) []*mgStmt {
	g.scopes = append(g.scopes, nil)
	var l []*mgStmt
	for i := 0; i < n && *budget > 0; i++ {
		l = append(l, g.stmt(budget)...)
	}
	if len(l) == 0 { // an empty else-branch would be optimised away by the real compiler: keep blocks non-empty
		if vs := g.vars("int", true); len(vs) > 0 {
			l = append(l, &mgStmt{K: "asg", X: vs[0].id, E: g.genIntFit(1)})
		} else {
			l = append(l, &mgStmt{K: "block", L: []*mgStmt{g.retStmt()}})
		}
	}
	g.scopes = g.scopes[:len(g.scopes)-1]
	return l
}

func (g *mgGen) retExpr() *mgExpr { return g.genOf(g.f.Ret, 2) }

func (g *mgGen) retStmt() *mgStmt {
	if g.f.Rets == nil {
		return &mgStmt{K: "return", E: g.retExpr()}
	}
	s := &mgStmt{K: "return"}
	for _, t := range g.f.Rets {
		s.Es = append(s.Es, g.genOf(t, 2))
	}
	return s
}

// a use of every declared variable right after its declaration keeps the Go compiler satisfied
func (g *mgGen) useStmt(v mgVar) *mgStmt {
	acc := g.vars("int", true)
	if v.typ == "int" {
		for _, a := range acc {
			if a.id != v.id {
				return &mgStmt{K: "asg", X: a.id, E: g.mkBin("Mod", g.mkBin("Add", mgVarE(a.id), mgVarE(v.id)), mgLit(c14M))}
			}
		}
		return &mgStmt{K: "if", E: g.mkBin("Lt", mgVarE(v.id), mgLit(-2000000)), S1: &mgStmt{L: []*mgStmt{g.retStmt()}}}
	}
	if len(acc) > 0 {
		return &mgStmt{K: "if", E: mgVarE(v.id), S1: &mgStmt{L: []*mgStmt{{K: "asg", X: acc[0].id, E: mgLit(int64(g.r.intn(50)))}}}}
	}
	return &mgStmt{K: "if", E: mgVarE(v.id), S1: &mgStmt{L: []*mgStmt{g.retStmt()}}}
}

func (g *mgGen) stmt(budget *int) []*mgStmt {
	*budget--
	g.cost += 12 * g.mult
	depth := len(g.scopes)
	k := g.r.intn(24)
	if depth > 4 && k >= 8 && k < 16 {
		k = g.r.intn(8)
	}
	switch {
	case k < 3:
		typ := pick(g.r, []string{"int", "int", "bool"})
		e := g.genOf(typ, 3)
		v := g.declare(typ, false)
		s := &mgStmt{K: "decl", X: v.id, E: e}
		g.bind(v)
		return []*mgStmt{s, g.useStmt(v)}
	case k < 7:
		typ := pick(g.r, []string{"int", "int", "int", "bool"})
		vs := g.vars(typ, true)
		if len(vs) == 0 {
			return nil
		}
		return []*mgStmt{{K: "asg", X: vs[g.r.intn(len(vs))].id, E: g.genOf(typ, 3)}}
	case k < 8:
		vs := g.vars("int", true)
		if len(vs) == 0 {
			return nil
		}
		x := vs[g.r.intn(len(vs))].id
		g.feat["op-assign"]++
		red := &mgStmt{K: "opasg", X: x, Op: "Mod", E: mgLit(c14M)}
		switch g.r.intn(4) {
		case 0:
			return []*mgStmt{{K: "inc", X: x}, red}
		case 1:
			return []*mgStmt{{K: "dec", X: x}, red}
		case 2:
			return []*mgStmt{{K: "opasg", X: x, Op: pick(g.r, []string{"Add", "Sub"}), E: g.genIntFit(2)}, red}
		default:
			return []*mgStmt{{K: "opasg", X: x, Op: "Mul", E: g.mkBin("Mod", g.genInt(1), mgLit(1009))}, red}
		}
	case k < 11:
		g.feat["if"]++
		c := g.genBool(2)
		if c.isConst() {
			c = g.genBool(0)
		}
		s := &mgStmt{K: "if", E: c, S1: &mgStmt{L: g.block(1+g.r.intn(3), budget)}}
		cur := s
		for g.r.chance(45) {
			cur.K = "ifelse"
			if g.r.chance(40) {
				nx := &mgStmt{K: "if", E: g.genBool(2), S1: &mgStmt{L: g.block(1+g.r.intn(2), budget)}}
				cur.S2 = nx
				cur = nx
				continue
			}
			cur.S2 = &mgStmt{L: g.block(1+g.r.intn(2), budget)}
			break
		}
		return []*mgStmt{s}
	case k < 14:
		g.feat["for"]++
		g.scopes = append(g.scopes, nil)
		defer func() { g.scopes = g.scopes[:len(g.scopes)-1] }()
		i := g.declare("int", true)
		n := int64(1 + g.r.intn(5))
		var s *mgStmt
		switch g.r.intn(4) {
		case 0:
			s = &mgStmt{K: "for", S1: &mgStmt{K: "decl", X: i.id, E: mgLit(n)}, E: g.mkBin("Gt", mgVarE(i.id), mgLit(0)), S2: &mgStmt{K: "dec", X: i.id}}
		case 1:
			s = &mgStmt{K: "for", S1: &mgStmt{K: "decl", X: i.id, E: mgLit(0)}, E: g.mkBin("Lt", mgVarE(i.id), mgLit(2*n)), S2: &mgStmt{K: "opasg", X: i.id, Op: "Add", E: mgLit(2)}}
		default:
			s = &mgStmt{K: "for", S1: &mgStmt{K: "decl", X: i.id, E: mgLit(0)}, E: g.mkBin("Lt", mgVarE(i.id), mgLit(n)), S2: &mgStmt{K: "inc", X: i.id}}
		}
		g.bind(i)
		g.inLoop++
		savedSw := g.swInner
		g.swInner = 0
		defer func() { g.swInner = savedSw }()
		saved := g.mult
		g.mult *= float64(n)
		s.S3 = &mgStmt{L: g.loopBody(g.block(1+g.r.intn(3), budget))}
		g.mult = saved
		g.inLoop--
		return []*mgStmt{s}
	case k < 15:
		// while-style loop on a fresh counter
		g.feat["while"]++
		e := g.genIntFit(2)
		v := g.declare("int", true)
		d1 := &mgStmt{K: "decl", X: v.id, E: e}
		g.bind(v)
		fix := &mgStmt{K: "if", E: g.mkBin("Lt", mgVarE(v.id), mgLit(0)), S1: &mgStmt{L: []*mgStmt{{K: "asg", X: v.id, E: &mgExpr{K: "neg", A: mgVarE(v.id)}}}}}
		g.inLoop++
		savedSw2 := g.swInner
		g.swInner = 0
		defer func() { g.swInner = savedSw2 }()
		savedMult := g.mult
		g.mult *= 21 // the counter is below 2^20 and at least halved per iteration
		infinite := g.r.bool()
		body := []*mgStmt{{K: "opasg", X: v.id, Op: "Div", E: mgLit(int64(2 + g.r.intn(3)))}}
		if infinite { // the exit test comes first, so that no continue can skip it
			body = append(body, &mgStmt{K: "if", E: g.mkBin("Le", mgVarE(v.id), mgLit(1)), S1: &mgStmt{L: []*mgStmt{{K: "break"}}}})
		}
		body = g.loopBody(append(body, g.block(1+g.r.intn(2), budget)...))
		g.mult = savedMult
		g.inLoop--
		var loop *mgStmt
		if !infinite {
			loop = &mgStmt{K: "for", S1: &mgStmt{K: "skip"}, E: g.mkBin("Gt", mgVarE(v.id), mgLit(0)), S2: &mgStmt{K: "skip"}, S3: &mgStmt{L: body}}
		} else {
			loop = &mgStmt{K: "for", S1: &mgStmt{K: "skip"}, E: &mgExpr{K: "bool", B: true}, S2: &mgStmt{K: "skip"}, S3: &mgStmt{L: body}}
		}
		return []*mgStmt{d1, fix, loop}
	case k < 17:
		if (g.inLoop > 0 || g.swInner > 0) && !g.r.chance(25) {
			g.feat["break-continue"]++
			k := "break"
			if g.inLoop > 0 && g.r.bool() {
				k = "continue"
				if g.swInner > 0 {
					g.feat["continue-in-switch"]++
				}
			} else if g.swInner > 0 {
				g.feat["break-in-switch"]++
			}
			return []*mgStmt{{K: "if", E: g.genBool(1), S1: &mgStmt{L: []*mgStmt{{K: k}}}}}
		}
		g.feat["early-return"]++
		if g.swTotal > 0 {
			g.feat["return-in-switch"]++
		}
		return []*mgStmt{{K: "if", E: g.genBool(1), S1: &mgStmt{L: []*mgStmt{g.retStmt()}}}}
	case k < 18:
		if g.swTotal < 3 && g.r.chance(70) {
			return []*mgStmt{g.switchStmt(budget)}
		}
		return []*mgStmt{{K: "block", L: g.block(2, budget)}}
	case k < 19:
		if g.r.bool() {
			if ss := g.multiCall(-1); ss != nil {
				return ss
			}
		}
		if e := g.genCall(pick(g.r, []string{"int", "bool"}), 2); e != nil {
			g.feat["call-stmt"]++
			return []*mgStmt{{K: "call", F: e.F, Name: mgName(e.F, g.sigs[e.F]), Args: e.Args}}
		}
		return nil
	case k < 20:
		// assignment to a parameter (STARG)
		for _, sc := range g.scopes[:1] {
			for _, v := range sc {
				if v.typ == "int" && !v.ro {
					g.feat["arg-store"]++
					return []*mgStmt{{K: "asg", X: v.id, E: g.genIntFit(2)}}
				}
			}
		}
		return nil
	default:
		if g.swTotal < 2 && depth <= 4 && g.r.chance(30) {
			if ss := g.shadowStmts(); ss != nil {
				return ss
			}
		}
		if g.inLoop > 0 && g.swTotal < 3 && g.r.chance(40) {
			return []*mgStmt{g.switchStmt(budget)}
		}
		vs := g.vars("int", true)
		if len(vs) == 0 {
			return nil
		}
		return []*mgStmt{{K: "asg", X: vs[g.r.intn(len(vs))].id, E: g.genIntFit(3)}}
	}
}

// shadowStmts: block scoping of names, on purpose. A name of an enclosing scope (parameter or local) is declared
// again with := inside a switch clause / an if body / as the variable of a for statement and in a block of its
// body, with the same or another type; sibling blocks that come later in the text, the statements after the
// block and the next iterations of the surrounding loop use the name meaning the OUTER variable (reads, and a
// write that has to survive). A code generator that keeps one name table for all clauses of a switch (or all
// bodies of an if chain), or closes the scope of a for statement before its post statement, gets these wrong.
func (g *mgGen) shadowStmts() []*mgStmt {
	ints := g.vars("int", false)
	if len(ints) == 0 {
		return nil
	}
	x := ints[g.r.intn(len(ints))]
	n := int64(3 + g.r.intn(3))
	if g.cost+100*float64(n)*g.mult > mgCostBudget {
		return nil
	}
	g.cost += 100 * float64(n) * g.mult
	var out []*mgStmt
	// the accumulator that makes everything observable
	var acc mgVar
	found := false
	for _, a := range g.vars("int", true) {
		if a.id != x.id {
			acc, found = a, true
		}
	}
	if !found {
		acc = g.declare("int", false)
		out = append(out, &mgStmt{K: "decl", X: acc.id, E: g.genIntFit(1)})
		g.bind(acc)
	}
	X, A := mgVarE(x.id), mgVarE(acc.id)
	addAcc := func(e *mgExpr) *mgStmt {
		return &mgStmt{K: "asg", X: acc.id, E: g.mkBin("Mod", g.mkBin("Add", g.mkBin("Mul", A, mgLit(3)), e), mgLit(c14M))}
	}
	// the inner declaration of the same name and a use of it: same type, or bool
	inner := func(rhs *mgExpr) []*mgStmt {
		if g.r.chance(30) {
			g.feat["shadow-other-type"]++
			return []*mgStmt{{K: "decl", X: x.id, E: g.mkBin("Lt", rhs, mgLit(int64(g.r.intn(9))))},
				{K: "if", E: X, S1: &mgStmt{L: []*mgStmt{addAcc(mgLit(int64(1 + g.r.intn(40))))}}}}
		}
		return []*mgStmt{{K: "decl", X: x.id, E: g.mkBin("Mod", g.mkBin("Add", rhs, mgLit(int64(1+g.r.intn(90)))), mgLit(c14M))}, addAcc(X)}
	}
	// what a later sibling does with the name: read the outer variable, or write it
	outerUse := func(i *mgExpr) []*mgStmt {
		if !x.ro && g.r.bool() {
			g.feat["shadow-outer-write"]++
			return []*mgStmt{{K: "asg", X: x.id, E: g.mkBin("Mod", g.mkBin("Add", g.mkBin("Add", X, i), mgLit(int64(1+g.r.intn(30)))), mgLit(c14M))}}
		}
		return []*mgStmt{addAcc(X)}
	}
	i := g.declare("int", true)
	I := mgVarE(i.id)
	loop := func(body []*mgStmt) *mgStmt {
		return &mgStmt{K: "for", S1: &mgStmt{K: "decl", X: i.id, E: mgLit(0)}, E: g.mkBin("Lt", I, mgLit(n)), S2: &mgStmt{K: "inc", X: i.id}, S3: &mgStmt{L: body}}
	}
	switch g.r.intn(4) {
	case 0, 1: // switch clauses
		g.feat["shadow-switch"]++
		m := int64(3 + g.r.intn(2))
		sw := &mgStmt{K: "switch", E: g.mkBin("Mod", g.mkBin("Add", I, mgLit(int64(g.r.intn(3)))), mgLit(m))}
		pos := g.r.intn(2) // the clause that declares: first or second
		for c := 0; c < 3; c++ {
			cl := mgClause{Num: true, Es: []*mgExpr{mgLit(int64(c))}}
			if c == 1 && g.r.bool() {
				cl.Es = append(cl.Es, mgLit(int64(3+g.r.intn(3))))
			}
			switch {
			case c == pos:
				cl.Body = inner(g.mkBin("Mul", I, mgLit(int64(2+g.r.intn(5)))))
			case c < pos:
				cl.Body = []*mgStmt{addAcc(X)}
			default:
				cl.Body = outerUse(I)
			}
			sw.Clauses = append(sw.Clauses, cl)
		}
		if g.r.chance(70) {
			sw.HasDefault = true
			sw.Default = append(outerUse(I), addAcc(mgLit(7)))
		}
		out = append(out, loop([]*mgStmt{sw, addAcc(X)}))
	case 2: // if / else if / else
		g.feat["shadow-if"]++
		c0 := g.mkBin("Eq", g.mkBin("Mod", I, mgLit(3)), mgLit(int64(g.r.intn(3))))
		c1 := g.mkBin("Eq", g.mkBin("Mod", I, mgLit(2)), mgLit(int64(g.r.intn(2))))
		chain := &mgStmt{K: "ifelse", E: c0, S1: &mgStmt{L: inner(g.mkBin("Add", I, X))},
			S2: &mgStmt{K: "ifelse", E: c1, S1: &mgStmt{L: outerUse(I)}, S2: &mgStmt{L: append(outerUse(I), addAcc(mgLit(5)))}}}
		out = append(out, loop([]*mgStmt{chain, addAcc(X)}))
	default: // the variable of a for statement, and a block inside its body
		g.feat["shadow-for"]++
		body := []*mgStmt{addAcc(X), {K: "block", L: inner(g.mkBin("Mul", X, mgLit(2)))}, addAcc(X)}
		f := &mgStmt{K: "for", S1: &mgStmt{K: "decl", X: x.id, E: mgLit(int64(g.r.intn(3)))}, E: g.mkBin("Lt", X, mgLit(n)),
			S2: &mgStmt{K: "inc", X: x.id}, S3: &mgStmt{L: body}}
		if g.r.bool() {
			f.S2 = &mgStmt{K: "opasg", X: x.id, Op: "Add", E: mgLit(2)}
		}
		out = append(out, f)
	}
	out = append(out, addAcc(X))
	return out
}

// switchStmt: a switch on an integer tag or without tag, default clause last or absent, no fallthrough (the
// real compiler's handling of the other forms is finding F142)
func (g *mgGen) switchStmt(budget *int) *mgStmt {
	g.feat["switch"]++
	s := &mgStmt{K: "switch"}
	num := g.r.chance(65)
	if num {
		s.E = g.mkBin("Mod", g.genInt(2), mgLit(int64(4+g.r.intn(4))))
	}
	g.swTotal++
	g.swInner++
	n := 1 + g.r.intn(3)
	usedLit := map[int64]bool{}
	for i := 0; i < n; i++ {
		c := mgClause{Num: num}
		for j := 0; j < 1+g.r.intn(2); j++ {
			var e *mgExpr
			if num {
				if g.r.chance(75) {
					z := int64(g.r.intn(9) - 2)
					if usedLit[z] { // duplicate constant cases are a compile error
						continue
					}
					usedLit[z] = true
					e = mgLit(z)
				} else {
					e = g.genInt(1)
					if e.isConst() {
						continue
					}
				}
			} else {
				e = g.genBool(2)
				if e.isConst() {
					e = g.genBool(0)
				}
				if e.isConst() {
					continue
				}
			}
			c.Es = append(c.Es, e)
		}
		if len(c.Es) == 0 {
			continue
		}
		if !g.r.chance(15) { // sometimes an empty clause
			c.Body = g.clauseBody(budget)
		}
		s.Clauses = append(s.Clauses, c)
	}
	if g.r.chance(60) || len(s.Clauses) == 0 {
		s.HasDefault = true
		s.Default = g.clauseBody(budget)
	}
	// the jump to the end of the switch after the last clause is deleted by the real compiler (a jump to the next
	// instruction), and so would be a break in tail position of that clause: keep it out of tail position
	last := &s.Default
	if !s.HasDefault {
		last = &s.Clauses[len(s.Clauses)-1].Body
	}
	if mgTailIs(*last, "break") {
		if vs := g.vars("int", true); len(vs) > 0 {
			*last = append(*last, &mgStmt{K: "asg", X: vs[0].id, E: g.genIntFit(1)})
		} else {
			*last = append(*last, &mgStmt{K: "block", L: []*mgStmt{g.retStmt()}})
		}
	}
	g.swTotal--
	g.swInner--
	return s
}

func (g *mgGen) clauseBody(budget *int) []*mgStmt {
	g.scopes = append(g.scopes, nil)
	var l []*mgStmt
	for i := 0; i < 1+g.r.intn(2) && *budget > 0; i++ {
		l = append(l, g.stmt(budget)...)
	}
	// jumps out of the switch: continue and return have to drop the tags first
	switch {
	case g.inLoop > 0 && g.r.chance(30):
		g.feat["continue-in-switch"]++
		l = append(l, &mgStmt{K: "if", E: g.genBool(1), S1: &mgStmt{L: []*mgStmt{{K: "continue"}}}})
	case g.r.chance(12):
		g.feat["return-in-switch"]++
		l = append(l, &mgStmt{K: "if", E: g.genBool(1), S1: &mgStmt{L: []*mgStmt{g.retStmt()}}})
	case g.r.chance(12):
		g.feat["break-in-switch"]++
		l = append(l, &mgStmt{K: "if", E: g.genBool(1), S1: &mgStmt{L: []*mgStmt{{K: "break"}}}})
		if vs := g.vars("int", true); len(vs) > 0 {
			l = append(l, &mgStmt{K: "asg", X: vs[0].id, E: g.genIntFit(1)})
		}
	}
	g.scopes = g.scopes[:len(g.scopes)-1]
	return l
}

// mgTailIs: the statement list ends, in tail position, with the given jump statement
func mgTailIs(l []*mgStmt, kind string) bool {
	if len(l) == 0 {
		return false
	}
	s := l[len(l)-1]
	switch s.K {
	case kind:
		return true
	case "if":
		return mgTailIs(s.S1.L, kind)
	case "ifelse":
		if s.S2.K == "if" || s.S2.K == "ifelse" {
			return mgTailIs([]*mgStmt{s.S2}, kind)
		}
		return mgTailIs(s.S2.L, kind)
	case "block":
		return mgTailIs(s.L, kind)
	}
	return false
}

// mgTailContinue: the body ends in a continue in tail position. The real compiler deletes a jump to the
// next instruction (writeJumps), which that continue would be; the generator keeps away from the peephole.
func mgTailContinue(l []*mgStmt) bool {
	if len(l) == 0 {
		return false
	}
	s := l[len(l)-1]
	switch s.K {
	case "continue":
		return true
	case "if":
		return mgTailContinue(s.S1.L)
	case "ifelse":
		if s.S2.K == "if" || s.S2.K == "ifelse" {
			return mgTailContinue([]*mgStmt{s.S2})
		}
		return mgTailContinue(s.S2.L)
	case "block":
		return mgTailContinue(s.L)
	}
	return false
}

func (g *mgGen) loopBody(l []*mgStmt) []*mgStmt {
	if mgTailContinue(l) {
		if vs := g.vars("int", true); len(vs) > 0 {
			l = append(l, &mgStmt{K: "asg", X: vs[0].id, E: g.genIntFit(1)})
		} else {
			l = append(l, &mgStmt{K: "block", L: []*mgStmt{{K: "break"}}})
		}
	}
	return l
}

// multiCall: a, _, c := f(..) / a, _, c = f(..) / f(..) for a function with several results (j < 0: any that the
// cost bound allows)
func (g *mgGen) multiCall(j int) []*mgStmt {
	if j < 0 {
		if g.inLoop >= 2 {
			return nil
		}
		self := 1.0
		if g.rec {
			self = 8
		}
		var cands []int
		for k := g.fidx + 1; k < len(g.sigs); k++ {
			if g.sigs[k].rets != nil && (g.cost+g.fcost[k]*g.mult)*self <= mgCostBudget {
				cands = append(cands, k)
			}
		}
		if len(cands) == 0 {
			return nil
		}
		j = cands[g.r.intn(len(cands))]
	}
	sig := g.sigs[j]
	g.sigs[j].used = true
	g.cost += g.fcost[j] * g.mult
	g.feat["multi-call"]++
	var args []*mgExpr
	for _, t := range sig.ptypes {
		args = append(args, g.genOf(t, 2))
	}
	name := mgName(j, sig)
	if g.r.chance(15) {
		return []*mgStmt{{K: "call", F: j, Name: name, Args: args}}
	}
	s := &mgStmt{K: "callasg", F: j, Name: name, Args: args, Decl: g.r.bool()}
	var out []*mgStmt
	var declared []mgVar
	for _, t := range sig.rets {
		switch {
		case g.r.chance(20):
			s.Xs = append(s.Xs, -1)
		case s.Decl:
			v := g.declare(t, false)
			declared = append(declared, v)
			s.Xs = append(s.Xs, v.id)
		default:
			x := -1
			for _, v := range g.vars(t, true) {
				dup := false
				for _, y := range s.Xs {
					dup = dup || y == v.id
				}
				if !dup && g.r.bool() {
					x = v.id
					break
				}
			}
			s.Xs = append(s.Xs, x)
		}
	}
	if s.Decl && len(declared) == 0 { // := needs a new variable
		s.Decl = false
	}
	out = append(out, s)
	for _, v := range declared {
		g.bind(v)
	}
	for _, v := range declared {
		out = append(out, g.useStmt(v))
	}
	return out
}

func mgGenProg(r *rng, feat map[string]int) (*mgProg, []mgSig) {
	nf := 2 + r.intn(5)
	g := &mgGen{r: r, prog: &mgProg{}, feat: feat}
	for i := 0; i < nf; i++ {
		np := r.intn(4)
		sig := mgSig{ret: pick(r, []string{"int", "int", "int", "bool"})}
		for j := 0; j < np; j++ {
			sig.ptypes = append(sig.ptypes, pick(r, []string{"int", "int", "bool"}))
		}
		if i > 0 && r.chance(30) {
			// several results, of both types and in varying positions
			n := 2 + r.intn(2)
			sig.ret = ""
			for k := 0; k < n; k++ {
				sig.rets = append(sig.rets, pick(r, []string{"int", "bool", "int"}))
			}
		} else if i > 0 && r.chance(30) {
			sig.rec = true
			sig.ret = "int"
			sig.ptypes = append([]string{"int"}, sig.ptypes...)
		}
		if len(sig.ptypes) > 6 {
			sig.ptypes = sig.ptypes[:6]
		}
		g.sigs = append(g.sigs, sig)
	}
	if r.chance(25) { // a call with more than four arguments: PUSHn REVERSEN
		g.sigs[nf-1].ptypes = []string{"int", "bool", "int", "int", "bool", "int"}[:5+r.intn(2)]
		g.sigs[nf-1].rec = false
	}
	if r.chance(10) && g.sigs[nf-1].rets != nil { // five results: PUSH5 REVERSEN on the caller's side as well
		g.sigs[nf-1].rets = []string{"int", "bool", "int", "int", "bool"}
	}
	g.fcost = make([]float64, nf)
	g.prog.Funcs = make([]*mgFunc, nf)
	for i := nf - 1; i >= 0; i-- { // callees first: their cost is known when a call is considered
		sig := g.sigs[i]
		f := &mgFunc{Ret: sig.ret, Rets: sig.rets, Name: mgName(i, sig)}
		g.f, g.fidx, g.rec = f, i, sig.rec
		g.cost, g.mult = 20, 1
		g.scopes = [][]mgVar{nil}
		g.inLoop = 0
		for j, t := range sig.ptypes {
			v := g.declare(t, sig.rec && j == 0)
			f.Params = append(f.Params, v.id)
			f.PTypes = append(f.PTypes, t)
			g.bind(v)
		}
		g.scopes = append(g.scopes, nil)
		budget := 4 + r.intn(10)
		var body []*mgStmt
		if sig.rec {
			feat["recursion"]++
			n := f.Params[0]
			body = append(body, &mgStmt{K: "if", E: g.mkBin("Le", mgVarE(n), mgLit(0)), S1: &mgStmt{L: []*mgStmt{{K: "return", E: g.genIntFit(1)}}}})
		}
		acc := g.declare("int", false)
		body = append(body, &mgStmt{K: "decl", X: acc.id, E: g.genIntFit(2)})
		g.bind(acc)
		// the compiler leaves out functions nobody calls: an unexported function is called by its predecessor
		if i+1 < nf && g.sigs[i+1].rets != nil && !g.sigs[i+1].used {
			body = append(body, g.multiCall(i+1)...)
		}
		for budget > 0 {
			body = append(body, g.stmt(&budget)...)
		}
		var ret *mgExpr
		if sig.rec {
			self := &mgExpr{K: "call", F: i, Args: []*mgExpr{g.mkBin("Sub", mgVarE(f.Params[0]), mgLit(1))}}
			for _, t := range sig.ptypes[1:] {
				self.Args = append(self.Args, g.genOf(t, 1))
			}
			ret = g.mkBin("Mod", g.mkBin(pick(r, []string{"Add", "Sub"}), g.mkBin("Mul", mgVarE(acc.id), mgLit(int64(2+r.intn(5)))), self), mgLit(c14M))
		} else if sig.ret == "int" {
			ret = g.mkBin("Mod", g.mkBin("Add", mgVarE(acc.id), g.genInt(2)), mgLit(c14M))
		} else {
			ret = g.mkBin(pick(r, []string{"Lt", "Ge", "Ne"}), mgVarE(acc.id), g.genInt(2))
			if r.chance(40) {
				e := &mgExpr{K: pick(r, []string{"and", "or"})}
				p := map[string]int{"and": 2, "or": 1}[e.K]
				e.A, e.C = mgChild(ret, p, false), mgChild(g.genBool(2), p, true)
				ret = e
			}
		}
		if sig.rets != nil {
			rs := &mgStmt{K: "return"}
			usedAcc := false
			for _, t := range sig.rets {
				if t == "int" && !usedAcc {
					usedAcc = true
					rs.Es = append(rs.Es, g.mkBin("Mod", g.mkBin("Add", mgVarE(acc.id), g.genInt(1)), mgLit(c14M)))
				} else {
					rs.Es = append(rs.Es, g.genOf(t, 2))
				}
			}
			if !usedAcc {
				body = append(body, g.useStmt(acc))
			}
			body = append(body, rs)
		} else {
			body = append(body, &mgStmt{K: "return", E: ret})
		}
		f.Body = body
		g.prog.Funcs[i] = f
		g.fcost[i] = g.cost
		if sig.rec {
			g.fcost[i] = g.cost * 8
		}
	}
	return g.prog, g.sigs
}

// ---------- decoding real bytecode into the target instruction type ----------

// c14Policy counts, over the jumps and calls of one script, how the widths the real emitter chose compare with
// the rule "short iff the offset in the all-long layout fits a signed byte" applied without the place holders
// (INITSLOT 0 0, JMPL +5) that the real layout still contains at that point.
type c14Policy struct{ Jumps, Agree, KeptLong, Impossible int }

func c14IsShortJump(op opcode.Opcode) bool {
	switch op {
	case opcode.JMP, opcode.JMPIF, opcode.JMPIFNOT, opcode.JMPEQ, opcode.JMPNE, opcode.JMPGT, opcode.JMPGE,
		opcode.JMPLT, opcode.JMPLE, opcode.CALL:
		return true
	}
	return false
}

func c14DecodeTarget(script []byte) (terms []string, at map[int]int, long []bool, pol c14Policy, err error) {
	ins, at, err := c14Decode(script)
	if err != nil {
		return nil, nil, nil, pol, err
	}
	target := func(in c14Ins) (int, error) {
		var rel int
		switch len(in.param) {
		case 1:
			rel = int(int8(in.param[0]))
		case 4:
			rel = int(int32(binary.LittleEndian.Uint32(in.param)))
		default:
			return 0, fmt.Errorf("jump operand of %d bytes", len(in.param))
		}
		t := in.off + rel
		if t == len(script) {
			return len(ins), nil
		}
		k, ok := at[t]
		if !ok {
			return 0, fmt.Errorf("jump from %d to %d: not an instruction boundary", in.off, t)
		}
		return k, nil
	}
	cmpOf := map[opcode.Opcode]string{
		opcode.JMPEQ: "CEq", opcode.JMPEQL: "CEq", opcode.JMPNE: "CNe", opcode.JMPNEL: "CNe",
		opcode.JMPGT: "CGt", opcode.JMPGTL: "CGt", opcode.JMPGE: "CGe", opcode.JMPGEL: "CGe",
		opcode.JMPLT: "CLt", opcode.JMPLTL: "CLt", opcode.JMPLE: "CLe", opcode.JMPLEL: "CLe"}
	simple := map[opcode.Opcode]string{
		opcode.PUSHT: "IPushB true", opcode.PUSHF: "IPushB false",
		opcode.ADD: "IAdd", opcode.SUB: "ISub", opcode.MUL: "IMul", opcode.DIV: "IDiv", opcode.MOD: "IMod",
		opcode.NEGATE: "INegate", opcode.INC: "IInc", opcode.DEC: "IDec", opcode.NOT: "INot",
		opcode.LT: "ICmp CLt", opcode.LE: "ICmp CLe", opcode.GT: "ICmp CGt", opcode.GE: "ICmp CGe",
		opcode.NUMEQUAL: "ICmp CEq", opcode.NUMNOTEQUAL: "ICmp CNe",
		opcode.RET: "IRet", opcode.DROP: "IDrop", opcode.SWAP: "ISwap", opcode.REVERSE3: "IReverse3",
		opcode.REVERSE4: "IReverse4", opcode.REVERSEN: "IReverseN", opcode.NOP: "INop",
		opcode.DUP: "IDup", opcode.EQUAL: "IEqual"}
	var jumpAt, jumpTo []int
	offL := []int{0} // offsets in the layout with every jump and call in the long form
	for _, in := range ins {
		op := in.op
		if c14IsShortJump(op) {
			offL = append(offL, offL[len(offL)-1]+5)
		} else {
			offL = append(offL, offL[len(offL)-1]+1+len(in.param))
		}
		// width of a jump or call operand as the emitter left it (true = long form); true for everything else
		long = append(long, len(in.param) != 1 || !c14IsShortJump(op))
		switch {
		case simple[op] != "":
			terms = append(terms, simple[op])
		case op == opcode.PUSHM1:
			terms = append(terms, "IPush (-1)")
		case op >= opcode.PUSH0 && op <= opcode.PUSH16:
			terms = append(terms, fmt.Sprintf("IPush %d", int(op)-int(opcode.PUSH0)))
		case op >= opcode.PUSHINT8 && op <= opcode.PUSHINT256:
			terms = append(terms, "IPush "+coqZ(bigint.FromBytes(in.param)))
		case op >= opcode.LDLOC0 && op <= opcode.LDLOC6:
			terms = append(terms, fmt.Sprintf("LdLoc %d", int(op-opcode.LDLOC0)))
		case op == opcode.LDLOC:
			terms = append(terms, fmt.Sprintf("LdLoc %d", in.param[0]))
		case op >= opcode.STLOC0 && op <= opcode.STLOC6:
			terms = append(terms, fmt.Sprintf("StLoc %d", int(op-opcode.STLOC0)))
		case op == opcode.STLOC:
			terms = append(terms, fmt.Sprintf("StLoc %d", in.param[0]))
		case op >= opcode.LDARG0 && op <= opcode.LDARG6:
			terms = append(terms, fmt.Sprintf("LdArg %d", int(op-opcode.LDARG0)))
		case op == opcode.LDARG:
			terms = append(terms, fmt.Sprintf("LdArg %d", in.param[0]))
		case op >= opcode.STARG0 && op <= opcode.STARG6:
			terms = append(terms, fmt.Sprintf("StArg %d", int(op-opcode.STARG0)))
		case op == opcode.STARG:
			terms = append(terms, fmt.Sprintf("StArg %d", in.param[0]))
		case op == opcode.INITSLOT:
			terms = append(terms, fmt.Sprintf("InitSlot %d %d", in.param[0], in.param[1]))
		case op == opcode.JMP || op == opcode.JMPL || op == opcode.JMPIF || op == opcode.JMPIFL ||
			op == opcode.JMPIFNOT || op == opcode.JMPIFNOTL || op == opcode.CALL || op == opcode.CALLL || cmpOf[op] != "":
			t, err := target(in)
			if err != nil {
				return nil, nil, nil, pol, err
			}
			jumpAt = append(jumpAt, len(terms))
			jumpTo = append(jumpTo, t)
			switch {
			case op == opcode.JMP || op == opcode.JMPL:
				terms = append(terms, fmt.Sprintf("Jmp %d", t))
			case op == opcode.JMPIF || op == opcode.JMPIFL:
				terms = append(terms, fmt.Sprintf("JmpIf %d", t))
			case op == opcode.JMPIFNOT || op == opcode.JMPIFNOTL:
				terms = append(terms, fmt.Sprintf("JmpIfNot %d", t))
			case op == opcode.CALL || op == opcode.CALLL:
				terms = append(terms, fmt.Sprintf("CallI %d", t))
			default:
				terms = append(terms, fmt.Sprintf("JmpCmp %s %d", cmpOf[op], t))
			}
		default:
			return nil, nil, nil, pol, fmt.Errorf("offset %d: %s is outside the modelled subset", in.off, op)
		}
	}
	// the emitter's rule applied to the place-holder-free long layout (Coq: Assemble.shorten) against the real widths
	for n, k := range jumpAt {
		rel := offL[jumpTo[n]] - offL[k]
		short := rel >= -128 && rel <= 127
		pol.Jumps++
		switch {
		case short == !long[k]:
			pol.Agree++
		case short:
			pol.KeptLong++
		default:
			pol.Impossible++
		}
	}
	return terms, at, long, pol, nil
}

// ---------- running fragment programs ----------

// runs longer than this many VM instructions are compared (VM against Go) but not re-executed in Coq
const c14FragStepCap = 6000

func c14AddExtra(co *caseOut, key string, n int) {
	if v, ok := co.extra[key].(int); ok {
		co.extra[key] = v + n
	} else {
		co.extra[key] = n
	}
}

type c14FragRunIn struct {
	F    int      `json:"f"`
	Args []c14Val `json:"args"`
}

type c14FragInput struct {
	Pkg   string         `json:"pkg"`
	Src   string         `json:"src"`
	Coq   string         `json:"coq"`   // the program as a term of coq/Lang/MiniGo.v
	Sigs  [][]string     `json:"sigs"`  // parameter types then result type ("" for several results), per function
	Names []string       `json:"names"` // Go names; functions with several results are not exported (f<k>)
	Ops   []c14FragRunIn `json:"ops"`   // runs (shrunk by ./check)
	Tag   string         `json:"tag"`
	Nont  bool           `json:"nontrivial"`
}

func c14CoqVal(v c14Val) string {
	if v.T == "bool" {
		return "VBool " + fmt.Sprint(v.B)
	}
	return "VInt " + coqZs(v.I)
}

func c14Obs(res string, typ string) string {
	switch {
	case res == "F":
		return "RF"
	case typ == "bool" && (res == "true" || res == "false"):
		return "RV (VBool " + res + ")"
	case typ == "int":
		if z, ok := new(big.Int).SetString(res, 10); ok {
			return "RV (VInt " + coqZ(z) + ")"
		}
	}
	return "RX"
}

// c14FragRun compiles the programs both ways, runs every op on the real VM and through the Go toolchain and
// records one Coq case per program.
func c14FragRun(co *caseOut, dir string, ins []c14FragInput) error {
	var units []c14Unit
	var calls []c14GoCall
	first := make([]int, len(ins))
	for i, in := range ins {
		u := c14Unit{Pkg: in.Pkg, Src: in.Src, Helpers: map[string]string{}}
		for k, sg := range in.Sigs {
			if sg[len(sg)-1] != "" { // entry functions: the exported ones
				u.Funcs = append(u.Funcs, c14Func{Name: in.Names[k], Params: sg[:len(sg)-1], Ret: sg[len(sg)-1]})
			}
		}
		units = append(units, u)
		first[i] = len(calls)
		for _, op := range in.Ops {
			sg := in.Sigs[op.F]
			calls = append(calls, c14GoCall{Unit: i, Fn: c14Func{Name: in.Names[op.F], Params: sg[:len(sg)-1], Ret: sg[len(sg)-1]}, Args: op.Args})
		}
	}
	ws, err := c14WriteWorkspace(dir, units, calls)
	if err != nil {
		return err
	}
	if err := ws.build(); err != nil {
		return fmt.Errorf("the Go toolchain rejects a generated MiniGo program (generator defect): %v", err)
	}
	gores, err := ws.run(len(calls))
	if err != nil {
		return err
	}
	for i, in := range ins {
		u := units[i]
		cc, err := c14Compile(filepath.Join(dir, u.Pkg))
		if err != nil {
			co.violation("frag", "the compiler rejects a program of the MiniGo fragment: "+firstLine(err.Error()), in, err.Error())
			continue
		}
		c14Meta(co, u, cc)
		terms, at, long, pol, err := c14DecodeTarget(cc.script)
		type implT struct {
			VM      []string `json:"vm"`
			Go      []string `json:"go"`
			Decoded bool     `json:"decoded"`
			Note    string   `json:"note,omitempty"`
		}
		impl := implT{Decoded: err == nil}
		if err != nil {
			impl.Note = err.Error()
			terms = nil
		}
		var ents []string
		for k := range in.Sigs {
			off, ok := cc.offsets[in.Names[k]]
			idx := -1
			if ok && at != nil {
				if j, ok2 := at[off]; ok2 {
					idx = j
				}
			}
			if idx < 0 {
				idx = 1 << 20
			}
			ents = append(ents, fmt.Sprint(idx))
		}
		var runs []string
		someValue := false
		skipped := 0
		for k, op := range in.Ops {
			sg := in.Sigs[op.F]
			f := c14Func{Name: in.Names[op.F], Params: sg[:len(sg)-1], Ret: sg[len(sg)-1]}
			vm, _ := c14VMResult(cc, f, op.Args, nil)
			g := gores[first[i]+k]
			if c14LastSteps > c14FragStepCap && vm == g {
				// long runs are left to the differential check above (vm == g): evaluating them in Coq is what costs time
				skipped++
				continue
			}
			impl.VM = append(impl.VM, vm)
			impl.Go = append(impl.Go, g)
			as := make([]string, len(op.Args))
			for j, a := range op.Args {
				as[j] = c14CoqVal(a)
			}
			if vm != "F" {
				someValue = true
			}
			runs = append(runs, fmt.Sprintf("(%d, [%s], %s, %s)", op.F, strings.Join(as, "; "), c14Obs(vm, f.Ret), c14Obs(g, f.Ret)))
		}
		// the script bytes themselves and the jump widths read off them: the byte-level comparison with the assembler
		bytesT := make([]string, len(cc.script))
		for k, b := range cc.script {
			bytesT[k] = fmt.Sprint(b)
		}
		longT := make([]string, len(long))
		for k, l := range long {
			longT[k] = fmt.Sprint(l)
		}
		term := fmt.Sprintf("CFrag\n   %s\n   [%s]\n   [%s]\n   [%s]\n   [%s]\n   [%s]", in.Coq, strings.Join(terms, "; "), strings.Join(ents, "; "),
			strings.Join(runs, ";\n    "), strings.Join(bytesT, "; "), strings.Join(longT, "; "))
		tag := in.Tag
		if skipped > 0 {
			c14AddExtra(co, "x_frag_long_runs_not_evaluated_in_coq", skipped)
		}
		c14AddExtra(co, "x_frag_script_bytes_compared", len(cc.script))
		c14AddExtra(co, "x_frag_jumps", pol.Jumps)
		c14AddExtra(co, "x_frag_jumps_width_as_plain_rule", pol.Agree)
		c14AddExtra(co, "x_frag_jumps_kept_long_by_placeholders", pol.KeptLong)
		if pol.Impossible > 0 {
			c14AddExtra(co, "x_frag_jumps_short_against_rule", pol.Impossible)
		}
		if !impl.Decoded {
			tag = "outside-subset"
		}
		co.add("frag", tag, in.Nont && someValue, in, impl, term)
	}
	return nil
}

func c14FragTuples(r *rng, ptypes []string, n int, rec bool) [][]c14Val {
	ints := []int64{0, 1, -1, 2, 3, 7, -3, 12, 100, -50, 999, 4096, -65536, 123456}
	var out [][]c14Val
	for k := 0; k < n; k++ {
		var t []c14Val
		for j, p := range ptypes {
			if p == "bool" {
				t = append(t, c14Val{T: "bool", B: r.bool()})
			} else if rec && j == 0 {
				t = append(t, c14Val{T: "int", I: int64(r.intn(8))})
			} else {
				t = append(t, c14Val{T: "int", I: ints[r.intn(len(ints))]})
			}
		}
		out = append(out, t)
		if len(ptypes) == 0 {
			break
		}
	}
	return out
}

func c14FragGenerate(co *caseOut, cf *commonFlags, r *rng, work string) error {
	n := max(2, cf.n/8)
	feat := map[string]int{}
	var ins []c14FragInput
	flush := func(tag string) error {
		if len(ins) == 0 {
			return nil
		}
		err := c14FragRun(co, filepath.Join(work, tag), ins)
		ins = nil
		return err
	}
	for i := 0; i < n; i++ {
		before := map[string]int{}
		for k, v := range feat {
			before[k] = v
		}
		p, sigs := mgGenProg(r, feat)
		in := c14FragInput{Pkg: fmt.Sprintf("m%d", i), Coq: p.coq(), Tag: fmt.Sprintf("funcs%d", len(p.Funcs))}
		in.Src = p.goSrc(in.Pkg)
		for _, k := range []string{"for", "while", "call", "and", "or", "recursion", "multi-call", "switch", "shadow-switch", "shadow-if", "shadow-for"} {
			if feat[k] > before[k] {
				in.Nont = true
			}
		}
		for k, f := range p.Funcs {
			in.Sigs = append(in.Sigs, append(append([]string{}, f.PTypes...), f.Ret))
			in.Names = append(in.Names, f.Name)
			if f.Rets != nil {
				continue
			}
			for _, t := range c14FragTuples(r, f.PTypes, 3, sigs[k].rec) {
				in.Ops = append(in.Ops, c14FragRunIn{F: k, Args: t})
			}
		}
		ins = append(ins, in)
		if len(ins) == 40 {
			if err := flush(fmt.Sprintf("f%d", i)); err != nil {
				return err
			}
		}
	}
	if err := flush("flast"); err != nil {
		return err
	}
	co.extra["x_frag_features"] = feat
	return nil
}

var _ = stackitem.Null{}
