package main

// c12 "methods" cases: scparser.IsScriptCorrect with a methods bit field, called the way
// Management.checkScriptAndMethods (pkg/core/native/management.go) does: every method offset must lie inside the
// script, then IsScriptCorrect(script, offsets).  The verdict is compared with the model (script_correct_m); direct
// check: when the verdict is "correct", an execution started at any of the method offsets (LoadScript +
// Context.Jump(offset), what a contract call does) only ever stands at instruction boundaries of the linear decoding.

import (
	"fmt"
	"sort"

	"github.com/nspcc-dev/neo-go/pkg/smartcontract/scparser"
	"github.com/nspcc-dev/neo-go/pkg/util"
	"github.com/nspcc-dev/neo-go/pkg/util/bitfield"
	"github.com/nspcc-dev/neo-go/pkg/vm/opcode"
)

type c12MethodsObs struct {
	Correct bool `json:"correct"`
	Started int  `json:"started"` // executions started at a method offset
	Steps   int  `json:"steps"`
}

// c12MethodsVerdict mirrors checkScriptAndMethods (after HFBasilisk)
func c12MethodsVerdict(script []byte, ms []int) bool {
	l := len(script)
	offsets := bitfield.New(l)
	for _, m := range ms {
		if m >= l {
			return false
		}
		offsets.Set(m)
	}
	return scparser.IsScriptCorrect(script, offsets) == nil
}

func c12RunMethods(co *caseOut, tag string, in c12Input) {
	script := in.script()
	var obs c12MethodsObs
	if p := catch(func() { obs.Correct = c12MethodsVerdict(script, in.Methods) }); p != "" {
		co.violation("methods", "IsScriptCorrect with a methods field panicked: "+p, in, nil)
		return
	}
	if obs.Correct {
		bounds := c12Boundaries(script)
		if bounds == nil {
			co.violation("methods", "script passes IsScriptCorrect but does not decode linearly", in, obs)
			return
		}
		for k, m := range in.Methods {
			if k >= 4 {
				break
			}
			bad := ""
			v := c13NewVM(in.Base, in.Limit)
			v.SetOnExecHook(func(_ util.Uint160, off int, _ opcode.Opcode) {
				if bad == "" && off != len(script) && !bounds[off] {
					bad = fmt.Sprintf("script and method offsets pass the static check, but the execution started at method offset %d reaches offset %d, which is not an instruction boundary", m, off)
				}
				obs.Steps++
			})
			v.LoadScript(script)
			p := catch(func() {
				v.Context().Jump(m)
				_ = v.Run()
			})
			obs.Started++
			if p != "" {
				bad = "Go panic escaped Run started at a method offset: " + p
			}
			if bad != "" {
				co.violation("methods", bad, in, obs)
				return
			}
		}
	}
	ms := make([]string, len(in.Methods))
	for i, m := range in.Methods {
		ms[i] = fmt.Sprint(m)
	}
	out := "rejected"
	if obs.Correct {
		out = "accepted"
	}
	term := fmt.Sprintf("CMethods %s %s %s", coqBytes(script), coqList(ms), coqBool(obs.Correct))
	co.add("methods", tag+"/"+out, len(in.Methods) > 0 && len(script) >= 3, in, obs, term)
}

// c12GenMethods: method offsets for a script: mostly instruction boundaries, sometimes arbitrary offsets, sometimes
// the script length or beyond
func c12GenMethods(r *rng, script []byte) []int {
	var bs []int
	for o := range c12Boundaries(script) {
		bs = append(bs, o)
	}
	sort.Ints(bs)
	var ms []int
	for k := r.intn(4); k > 0; k-- {
		switch {
		case len(bs) > 0 && !r.chance(25):
			ms = append(ms, pick(r, bs))
		case r.chance(15):
			ms = append(ms, len(script)+r.intn(2))
		default:
			ms = append(ms, r.intn(len(script)+1))
		}
	}
	return ms
}
