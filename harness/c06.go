package main

// C06 — only valid chain extensions are accepted; a rejected block changes nothing.
// At many chain states (with mempool content) the valid next block is built and EVERY single corruption of
// it is offered to a fresh replica of that state; the verdict class is compared with the model
// (coq/Node/Accept.v) and the frame (database, mempool, heights) is compared before/after directly.

import (
	"bytes"
	"encoding/json"
	"errors"
	"fmt"
	"sort"
	"strings"

	"github.com/nspcc-dev/neo-go/pkg/core"
	"github.com/nspcc-dev/neo-go/pkg/core/block"
	"github.com/nspcc-dev/neo-go/pkg/core/mempool"
	"github.com/nspcc-dev/neo-go/pkg/core/native/nativenames"
	"github.com/nspcc-dev/neo-go/pkg/core/storage"
	"github.com/nspcc-dev/neo-go/pkg/core/transaction"
	"github.com/nspcc-dev/neo-go/pkg/crypto/keys"
	nio "github.com/nspcc-dev/neo-go/pkg/io"
	"github.com/nspcc-dev/neo-go/pkg/neotest"
	"github.com/nspcc-dev/neo-go/pkg/util"
	"github.com/nspcc-dev/neo-go/pkg/wallet"
)

func init() { register("c06", runC06) }

type c06Input struct {
	Cfg    c02Cfg    `json:"cfg"`
	Blocks [][]c02Tx `json:"blocks"` // history up to the chain state
	Ahead  int       `json:"ahead"`  // 0: the next header is unknown; 1/2: that many headers are already recorded
	Next   []c02Tx   `json:"next"`   // transactions of the valid next block
	Pool   []c02Tx   `json:"pool"`   // further valid transactions waiting in the mempool
	Ops    []string  `json:"ops"`    // corruptions to apply (each one on a fresh replica)
}

// every single corruption; "+sig" variants re-sign the header with the validators' keys afterwards
var c06AllOps = []string{
	"none",
	"version+1", "version+1+sig", "prevhash", "prevhash+sig", "prevhash=older", "prevhash=older+sig", "merkle", "merkle+sig",
	"ts=prev", "ts=prev+sig", "ts-1+sig", "ts+1", "ts+1+sig", "nonce+1", "nonce+1+sig",
	"index-1", "index-1+sig", "index+1", "index+1+sig", "primary+1", "primary+1+sig",
	"nextcons", "nextcons+sig", "prevroot", "prevroot+sig", "srflag", "srflag+sig",
	"wit-inv-byte", "wit-inv-empty", "wit-ver-byte", "wit-swap-other-key",
	"tx-reorder", "tx-reorder+fix", "tx-dup", "tx-dup+fix", "tx-drop", "tx-drop+fix", "tx-alter", "tx-alter+fix",
	"tx-expired+fix", "tx-notyet+fix", "tx-conflict+fix", "tx-underfunded+fix", "tx-overspend+fix",
	"tx-badsig+fix", "tx-replay+fix", "tx-extra-valid+fix",
	"enc-trunc1", "enc-trunchalf", "enc-pad", "enc-roundtrip",
	"nextroot-bad",
}

type c06State struct {
	b    *c02Built
	snap map[string][]byte // database of the state
	n    uint32
}

// c06Fork opens a fresh replica of the state.
func c06Fork(cfg c02Cfg, snap map[string][]byte) (*core.Blockchain, storage.Store, neotest.Signer, string) {
	st := storage.NewMemoryStore()
	mem, stor := map[string][]byte{}, map[string][]byte{}
	for k, v := range snap {
		if c02IsStor(k) {
			stor[k] = bytes.Clone(v)
		} else {
			mem[k] = bytes.Clone(v)
		}
	}
	st.PutChangeSet(mem, stor)
	bc, vs, fail := c02Open(c02NoClose{st}, cfg, nil)
	if fail != "" {
		return nil, nil, nil, fail
	}
	go bc.Run()
	return bc, st, vs, ""
}

func c06Class(err error) string {
	if err == nil {
		return "accept"
	}
	s := err.Error()
	switch {
	case errors.Is(err, core.ErrInvalidBlockIndex):
		return "index-ahead"
	case errors.Is(err, core.ErrAlreadyExists) && strings.Contains(s, "already on chain"):
		return "index-behind"
	case errors.Is(err, core.ErrHdrStateRootSetting):
		return "sr-setting"
	case errors.Is(err, core.ErrHdrInvalidStateRoot):
		return "hdr-prevroot"
	case errors.Is(err, core.ErrHdrHashMismatch):
		return "hdr-prevhash"
	case errors.Is(err, core.ErrHdrIndexMismatch):
		return "hdr-index"
	case errors.Is(err, core.ErrHdrInvalidTimestamp):
		return "hdr-timestamp"
	case strings.Contains(s, "previous header") && strings.Contains(s, "was not found"):
		return "hdr-prev-unknown"
	case strings.Contains(s, "onPersist failed"), strings.Contains(s, "postPersist failed"):
		return "exec"
	case strings.Contains(s, "invalid block: hash mismatch"):
		return "known-hash"
	case strings.Contains(s, "MerkleRoot mismatch"):
		return "merkle"
	case strings.Contains(s, "failed to verify"):
		return "tx"
	case strings.Contains(s, "transactions of the block conflict with each other"):
		return "conflict"
	case strings.Contains(s, "PrevStateRoot mismatch"):
		return "next-root"
	case errors.Is(err, core.ErrVerificationFailed), strings.Contains(s, "witness"), strings.Contains(s, "verification script"),
		strings.Contains(s, "invocation script"), strings.Contains(s, "verification contract"):
		return "hdr-witness"
	}
	return "other:" + s
}

func c06CloneBlock(b *block.Block) *block.Block {
	w := nio.NewBufBinWriter()
	b.EncodeBinary(w.BinWriter)
	nb := block.New(b.StateRootEnabled)
	r := nio.NewBinReaderFromBuf(w.Bytes())
	nb.DecodeBinary(r)
	if r.Err != nil {
		panic(r.Err)
	}
	return nb
}

// c06Rehash makes the cached hash follow the fields (encode/decode round trip; the state root flag is
// not part of the encoding, it selects it).
func c06Rehash(b *block.Block) *block.Block {
	w := nio.NewBufBinWriter()
	b.EncodeBinary(w.BinWriter)
	nb := block.New(b.StateRootEnabled)
	r := nio.NewBinReaderFromBuf(w.Bytes())
	nb.DecodeBinary(r)
	if r.Err != nil {
		panic(r.Err)
	}
	return nb
}

func c06Flip(u util.Uint256) util.Uint256 { u[5] ^= 0x40; return u }

type c06Interner struct{ m map[string]int }

func (i *c06Interner) id(b []byte) int {
	if i.m == nil {
		i.m = map[string]int{}
	}
	k := string(b)
	if v, ok := i.m[k]; ok {
		return v
	}
	v := len(i.m) + 1
	i.m[k] = v
	return v
}

func c06PoolHashes(bc *core.Blockchain) []string {
	var hs []string
	for _, t := range bc.GetMemPool().GetVerifiedTransactions() {
		hs = append(hs, t.Hash().StringLE())
	}
	sort.Strings(hs)
	return hs
}

// c06Run performs one corruption on a fresh replica.  Returns false when the corruption does not apply.
func c06Run(co *caseOut, in c06Input, st *c06State, op string, valid *block.Block, nextHdrs []*block.Header,
	poolTxs []*transaction.Transaction, mk func(e *neotest.Executor, t *c02T, kind string) *transaction.Transaction) bool {
	kind := "addblock"
	vin := in
	vin.Ops = []string{op}
	viol := func(class, note string) {
		co.violation(kind, fmt.Sprintf("%s/%s op=%s ahead=%d: %s", kind, class, op, in.Ahead, note), vin, map[string]any{"op": op, "class": class})
	}
	bc, store, vs, fail := c06Fork(in.Cfg, st.snap)
	if fail != "" {
		viol("fork", c02Short(fail))
		return true
	}
	defer bc.Close()
	t := &c02T{}
	e := neotest.NewExecutor(t, bc, vs, vs)
	if op == "nextroot-bad" {
		// the header AFTER the next one is recorded with a wrong PrevStateRoot (validly signed): the valid
		// next block is then refused by storeBlock after it has been executed
		if in.Ahead != 2 || !in.Cfg.SRIH {
			return false
		}
		w := nio.NewBufBinWriter()
		nextHdrs[1].EncodeBinary(w.BinWriter)
		h2 := &block.Header{StateRootEnabled: true}
		r := nio.NewBinReaderFromBuf(w.Bytes())
		h2.DecodeBinary(r)
		h2.PrevStateRoot = c06Flip(h2.PrevStateRoot)
		w = nio.NewBufBinWriter()
		h2.EncodeBinary(w.BinWriter)
		h3 := &block.Header{StateRootEnabled: true}
		r = nio.NewBinReaderFromBuf(w.Bytes())
		h3.DecodeBinary(r)
		h3.Script.InvocationScript = vs.SignHashable(uint32(bc.GetConfig().Magic), h3)
		nextHdrs = []*block.Header{nextHdrs[0], h3}
	}
	for _, h := range nextHdrs {
		if err := bc.AddHeaders(h); err != nil {
			viol("setup-headers", err.Error())
			return true
		}
	}
	for _, tx := range poolTxs {
		if err := bc.PoolTx(tx); err != nil {
			viol("setup-pool", err.Error())
			return true
		}
	}
	// ---- build the corrupted block ----
	b := c06CloneBlock(valid)
	resign := strings.HasSuffix(op, "+sig") || strings.HasSuffix(op, "+fix")
	base := strings.TrimSuffix(strings.TrimSuffix(op, "+sig"), "+fix")
	var raw []byte // for encoding corruptions
	decodeErr := false
	prev := st.b.Blocks[st.n]
	switch base {
	case "none", "nextroot-bad":
	case "version+1":
		b.Version++
	case "prevhash":
		b.PrevHash = c06Flip(b.PrevHash)
	case "prevhash=older":
		if st.n < 1 {
			return false
		}
		b.PrevHash = st.b.Blocks[st.n-1].Hash()
	case "merkle":
		b.MerkleRoot = c06Flip(b.MerkleRoot)
	case "ts=prev":
		b.Timestamp = prev.Timestamp
	case "ts-1":
		b.Timestamp = prev.Timestamp - 1
	case "ts+1":
		b.Timestamp++
	case "nonce+1":
		b.Nonce++
	case "index-1":
		b.Index--
	case "index+1":
		b.Index++
	case "primary+1":
		b.PrimaryIndex++
	case "nextcons":
		b.NextConsensus[3] ^= 0x10
	case "prevroot":
		if !in.Cfg.SRIH {
			return false
		}
		b.PrevStateRoot = c06Flip(b.PrevStateRoot)
	case "srflag":
		b.StateRootEnabled = !b.StateRootEnabled
	case "wit-inv-byte":
		b.Script.InvocationScript[len(b.Script.InvocationScript)/2] ^= 1
	case "wit-inv-empty":
		b.Script.InvocationScript = nil
	case "wit-ver-byte":
		b.Script.VerificationScript[len(b.Script.VerificationScript)/2] ^= 1
	case "wit-swap-other-key":
		pk, _ := keys.NewPrivateKeyFromBytes(append(bytes.Repeat([]byte{0x33}, 31), 7))
		acc := wallet.NewAccountFromPrivateKey(pk)
		sg := neotest.NewSingleSigner(acc)
		b.Script.VerificationScript = sg.Script()
		b.Script.InvocationScript = sg.SignHashable(uint32(bc.GetConfig().Magic), b)
	case "tx-reorder":
		if len(b.Transactions) < 2 {
			return false
		}
		b.Transactions[0], b.Transactions[1] = b.Transactions[1], b.Transactions[0]
	case "tx-dup":
		if len(b.Transactions) < 1 {
			return false
		}
		b.Transactions = append(b.Transactions, b.Transactions[0])
	case "tx-drop":
		if len(b.Transactions) < 1 {
			return false
		}
		b.Transactions = b.Transactions[1:]
	case "tx-alter":
		if len(b.Transactions) < 1 {
			return false
		}
		b.Transactions[0].Nonce++
		w := nio.NewBufBinWriter()
		b.Transactions[0].EncodeBinary(w.BinWriter)
		nt, err := transaction.NewTransactionFromBytes(w.Bytes())
		if err != nil {
			panic(err)
		}
		b.Transactions[0] = nt
	case "tx-expired", "tx-notyet", "tx-conflict", "tx-underfunded", "tx-overspend", "tx-badsig", "tx-replay", "tx-extra-valid":
		var extra *transaction.Transaction
		if m := c02Try(func() { extra = mk(e, t, base) }); m != "" || extra == nil {
			return false
		}
		b.Transactions = append(b.Transactions, extra)
		if base == "tx-overspend" { // two transactions whose fees together exceed the sender's balance
			var extra2 *transaction.Transaction
			if m := c02Try(func() { extra2 = mk(e, t, "tx-overspend2") }); m != "" || extra2 == nil {
				return false
			}
			b.Transactions = append(b.Transactions, extra2)
		}
	case "enc-trunc1", "enc-trunchalf", "enc-pad", "enc-roundtrip":
		w := nio.NewBufBinWriter()
		b.EncodeBinary(w.BinWriter)
		raw = w.Bytes()
		switch base {
		case "enc-trunc1":
			raw = raw[:len(raw)-1]
		case "enc-trunchalf":
			raw = raw[:len(raw)/2]
		case "enc-pad":
			raw = append(append([]byte{}, raw...), 0, 0, 0xff)
		}
	default:
		panic("unknown corruption " + op)
	}
	if strings.HasSuffix(op, "+fix") {
		b.RebuildMerkleRoot()
	}
	if raw != nil {
		nb := block.New(in.Cfg.SRIH)
		r := nio.NewBinReaderFromBuf(raw)
		if m := c02Try(func() { nb.DecodeBinary(r) }); m != "" {
			viol("decode-panics", c02Short(m))
			return true
		}
		if r.Err != nil {
			decodeErr = true
		} else {
			b = nb
		}
	} else {
		b = c06Rehash(b)
		if resign {
			b.Script.InvocationScript = vs.SignHashable(uint32(bc.GetConfig().Magic), b)
		}
	}
	// ---- oracles and the state before ----
	var it c06Interner
	zero := it.id(util.Uint256{}.BytesBE())
	_ = zero
	bc.VerifPersist()
	n, hh := bc.BlockHeight(), bc.HeaderHeight()
	before := c02NormDump(c02Dump(store))
	poolBefore := c06PoolHashes(bc)
	tipHash := bc.CurrentBlockHash()
	localRoot := bc.GetStateModule().CurrentLocalStateRoot()
	var known []string
	for i := n + 1; i <= hh; i++ {
		known = append(known, fmt.Sprint(it.id(bc.GetHeaderHash(i).BytesBE())))
	}
	if decodeErr {
		co.add(kind, "decode-error/"+base, true, vin, map[string]any{"verdict": "decode-error"},
			fmt.Sprintf("CDecodeErr %d", c06OpIndex(op)))
		return true
	}
	lastHdr, _ := bc.GetHeader(bc.GetHeaderHash(hh))
	sigOK := false
	if lastHdr != nil {
		_, err := bc.VerifyWitness(lastHdr.NextConsensus, &b.Header, &b.Script, core.HeaderVerificationGasLimit)
		sigOK = err == nil
	}
	txsOK := true
	{
		scratch := mempool.New(len(b.Transactions)+1, false, nil)
		for _, tx := range b.Transactions {
			var err error
			if bc.GetMemPool().ContainsKey(tx.Hash()) {
				err = scratch.Add(tx, bc)
			} else {
				err = bc.PoolTx(tx, scratch)
			}
			if err != nil {
				txsOK = false
				break
			}
		}
	}
	txMerkle := b.ComputeMerkleRoot()
	prevKnown := int64(-1) // index of the stored header whose hash is b.PrevHash
	if ph, err := bc.GetHeader(b.PrevHash); err == nil {
		prevKnown = int64(ph.Index)
	}
	vals, _ := bc.GetNextBlockValidators()
	primaryOK := int(b.PrimaryIndex) < len(vals)
	// ---- the call ----
	var err error
	if m := c02Try(func() { err = bc.AddBlock(b) }); m != "" {
		viol("panic", c02Short(m))
		return true
	}
	verdict := c06Class(err)
	if strings.HasPrefix(verdict, "other:") {
		viol("unclassified-error", verdict)
	}
	bc.VerifPersist()
	n2, hh2 := bc.BlockHeight(), bc.HeaderHeight()
	after := c02NormDump(c02Dump(store))
	hdrRecorded := hh2 == hh+1 && n2 == n
	if err != nil {
		// ---- reject_frame ----
		if n2 != n {
			viol("height-changed", fmt.Sprintf("rejected (%s) but block height went %d -> %d", verdict, n, n2))
		}
		if bc.CurrentBlockHash() != tipHash {
			viol("tip-changed", fmt.Sprintf("rejected (%s) but the tip hash changed", verdict))
		}
		if bc.GetStateModule().CurrentLocalStateRoot() != localRoot {
			viol("root-changed", fmt.Sprintf("rejected (%s) but the local state root changed", verdict))
		}
		if hh2 != hh && !hdrRecorded {
			viol("headers-changed", fmt.Sprintf("rejected (%s), header height went %d -> %d", verdict, hh, hh2))
		}
		if hdrRecorded {
			if !sigOK || b.PrevHash != tipHash || b.Timestamp <= prev.Timestamp {
				viol("bad-header-recorded", fmt.Sprintf("rejected (%s), yet the header was recorded although it is not validly signed and linked (sig=%v)", verdict, sigOK))
			}
			if bc.GetHeaderHash(hh2) != b.Hash() {
				viol("other-header-recorded", fmt.Sprintf("rejected (%s), a different header was recorded", verdict))
			}
		}
		allowed := func(k string, va, vb []byte) bool {
			if !hdrRecorded {
				return false
			}
			// exactly the header record and the header pointer may appear
			if k[0] == byte(storage.SYSCurrentHeader) {
				return true
			}
			if k[0] == byte(storage.DataExecutable) && va == nil && len(k) == 33 && bytes.Equal([]byte(k[1:]), b.Hash().BytesBE()) {
				return true
			}
			return false
		}
		nd, ex := c02DiffDumps(before, after, allowed)
		if nd > 0 {
			viol("db-changed", fmt.Sprintf("rejected (%s) but the database changed in %d keys, classes=%s: %v", verdict, nd, c02DiffClasses(before, after, allowed), ex))
		}
		if pa := c06PoolHashes(bc); strings.Join(pa, ",") != strings.Join(poolBefore, ",") {
			viol("mempool-changed", fmt.Sprintf("rejected (%s) but the mempool changed: %d -> %d transactions", verdict, len(poolBefore), len(pa)))
		}
		// ---- retry_accepts ----
		var err2 error
		if m := c02Try(func() { err2 = bc.AddBlock(valid) }); m != "" {
			viol("retry-panics", c02Short(m))
		} else if err2 != nil {
			if (hdrRecorded && b.Hash() != valid.Hash()) || op == "nextroot-bad" {
				// a validly signed header of another block now occupies the height: the node follows it
			} else {
				viol("retry-rejected", fmt.Sprintf("after the rejection (%s) the valid block is not accepted: %v", verdict, err2))
			}
		} else if bc.BlockHeight() != n+1 {
			viol("retry-height", "valid block accepted but height did not advance")
		}
	} else {
		if n2 != n+1 {
			viol("accept-height", fmt.Sprintf("accepted but height is %d", n2))
		}
		// what was accepted must be on the ledger: every transaction of the block retrievable at this height
		seen := map[util.Uint256]bool{}
		for _, tx := range b.Transactions {
			if seen[tx.Hash()] {
				viol("accepted-duplicate-tx", "accepted block carries the same transaction twice")
			}
			seen[tx.Hash()] = true
			got, hgt, gerr := bc.GetTransaction(tx.Hash())
			if gerr != nil || got == nil || hgt != n+1 {
				viol("accepted-tx-not-on-ledger", fmt.Sprintf("block %d was accepted but its transaction %s cannot be read back (%v)", n+1, tx.Hash().StringLE(), gerr))
			}
			for _, a := range tx.GetAttributes(transaction.ConflictsT) {
				if seen[a.Value.(*transaction.Conflicts).Hash] {
					viol("accepted-conflicting-txs", fmt.Sprintf("block %d was accepted although transaction %s names an earlier transaction of the same block in its Conflicts attribute", n+1, tx.Hash().StringLE()))
				}
			}
		}
		if sb, gerr := bc.GetBlock(b.Hash()); gerr != nil {
			viol("accepted-block-missing", gerr.Error())
		} else if lastHdr != nil {
			if _, werr := bc.VerifyWitness(lastHdr.NextConsensus, &sb.Header, &sb.Script, core.HeaderVerificationGasLimit); werr != nil {
				viol("accepted-unsigned", "the stored block does not carry a valid consensus witness: "+werr.Error())
			}
		}
	}
	// ---- the case for the model ----
	knownS := coqList(known)
	prevRootID := it.id(b.PrevStateRoot.BytesBE())
	conflictFree := true
	{
		seen := map[util.Uint256]bool{}
		for _, tx := range b.Transactions {
			if seen[tx.Hash()] {
				conflictFree = false
			}
			seen[tx.Hash()] = true
		}
		for _, tx := range b.Transactions {
			for _, a := range tx.GetAttributes(transaction.ConflictsT) {
				if seen[a.Value.(*transaction.Conflicts).Hash] {
					conflictFree = false
				}
			}
		}
	}
	nextRootOK := op != "nextroot-bad"
	prevK := "None"
	if prevKnown >= 0 {
		prevK = fmt.Sprintf("(Some %d)", prevKnown)
	}
	term := fmt.Sprintf("CAdd %s %d %d %d %d %d %s %d %d %s %d %d %s %d %d %s %d %s %s %s %s %s %d %d",
		coqBool(in.Cfg.SRIH), n, hh, it.id(tipHash.BytesBE()), prev.Timestamp, it.id(localRoot.BytesBE()), knownS,
		b.Index, it.id(b.PrevHash.BytesBE()), prevK, b.Timestamp, it.id(b.MerkleRoot.BytesBE()), coqBool(b.StateRootEnabled), prevRootID,
		it.id(b.Hash().BytesBE()), coqBool(sigOK), it.id(txMerkle.BytesBE()), coqBool(txsOK), coqBool(conflictFree), coqBool(primaryOK), coqBool(nextRootOK), c06Verdict(verdict), n2, hh2)
	tag := verdict
	co.add(kind, fmt.Sprintf("%s/ahead%d", tag, in.Ahead), op != "none" && op != "enc-roundtrip", vin,
		map[string]any{"verdict": verdict, "n": n2, "hh": hh2, "sig_ok": sigOK, "txs_ok": txsOK}, term)
	return true
}

func c06Verdict(v string) string {
	switch v {
	case "accept":
		return "VAccept"
	case "index-ahead":
		return "VIndexAhead"
	case "index-behind":
		return "VIndexBehind"
	case "sr-setting":
		return "VSetting"
	case "hdr-prevroot":
		return "VPrevRoot"
	case "hdr-prevhash":
		return "VPrevHash"
	case "hdr-index":
		return "VHdrIndex"
	case "hdr-timestamp":
		return "VTimestamp"
	case "hdr-witness":
		return "VWitness"
	case "known-hash":
		return "VKnownHash"
	case "merkle":
		return "VMerkle"
	case "tx":
		return "VTx"
	case "conflict":
		return "VConflict"
	case "next-root":
		return "VNextRoot"
	case "hdr-prev-unknown":
		return "VPrevUnknown"
	case "exec":
		return "VExec"
	}
	return "VOther"
}

func c06RunState(co *caseOut, in c06Input) error {
	b, err := c02Build(c02History{Cfg: in.Cfg, Blocks: in.Blocks})
	if err != nil {
		return err
	}
	defer b.close()
	n := uint32(len(b.Blocks) - 1)
	st := &c06State{b: b, snap: b.Snaps[n].Dump, n: n}
	// the valid next block(s) are built on a scratch replica
	bc, _, vs, fail := c06Fork(in.Cfg, st.snap)
	if fail != "" {
		return fmt.Errorf("fork: %s", fail)
	}
	t := &c02T{}
	e := neotest.NewExecutor(t, bc, vs, vs)
	accs := c02Accounts()
	var valid *block.Block
	var nextHdrs []*block.Header
	var poolTxs []*transaction.Transaction
	fail = c02Try(func() {
		var txs []*transaction.Transaction
		for _, x := range in.Next {
			txs = append(txs, c02MakeTx(t, e, accs, x))
		}
		for _, x := range in.Pool {
			tx := c02MakeTx(t, e, accs, x)
			tx.ValidUntilBlock += 1
			// re-sign after changing ValidUntilBlock
			tx.Scripts = nil
			who := e.Validator
			if x.From >= 0 && x.From < len(accs) {
				who = accs[x.From]
			}
			if err := who.SignTx(bc.GetConfig().Magic, tx); err != nil {
				panic(err)
			}
			poolTxs = append(poolTxs, tx)
		}
		// half of the block's transactions are also waiting in the pool
		for i, tx := range txs {
			if i%2 == 0 {
				poolTxs = append(poolTxs, tx)
			}
		}
		valid = e.NewUnsignedBlock(t, txs...)
		e.SignBlock(valid)
		if in.Ahead > 0 {
			// headers of the valid block and of its successors are recorded before the block arrives
			nextHdrs = append(nextHdrs, &valid.Header)
			if err := bc.AddBlock(valid); err != nil {
				panic(err)
			}
			for i := 1; i < in.Ahead; i++ {
				nb := e.NewUnsignedBlock(t)
				e.SignBlock(nb)
				if err := bc.AddBlock(nb); err != nil {
					panic(err)
				}
				nextHdrs = append(nextHdrs, &nb.Header)
			}
		}
	})
	bc.Close()
	if fail != "" {
		return fmt.Errorf("building the valid block: %s", fail)
	}
	mk := func(e *neotest.Executor, t *c02T, kind string) *transaction.Transaction {
		gas := e.NativeHash(t, nativenames.Gas)
		h := e.Chain.BlockHeight()
		sign := func(tx *transaction.Transaction, s neotest.Signer) *transaction.Transaction {
			return e.SignTx(t, tx, 1_0000_0000, s)
		}
		switch kind {
		case "tx-expired":
			tx := e.NewUnsignedTx(t, gas, "transfer", accs[0].ScriptHash(), accs[1].ScriptHash(), 1, nil)
			tx.ValidUntilBlock = h
			return sign(tx, accs[0])
		case "tx-notyet":
			tx := e.NewUnsignedTx(t, gas, "transfer", accs[0].ScriptHash(), accs[1].ScriptHash(), 1, nil)
			tx.ValidUntilBlock = h + e.Chain.GetMaxValidUntilBlockIncrement() + 5
			return sign(tx, accs[0])
		case "tx-conflict":
			if len(valid.Transactions) == 0 {
				return nil
			}
			tx := e.NewUnsignedTx(t, gas, "transfer", accs[1].ScriptHash(), accs[0].ScriptHash(), 1, nil)
			tx.Attributes = []transaction.Attribute{{Type: transaction.ConflictsT, Value: &transaction.Conflicts{Hash: valid.Transactions[0].Hash()}}}
			// the conflicting transaction must share a signer with its victim to matter
			return sign(tx, c06SignerOf(valid.Transactions[0], accs, e))
		case "tx-underfunded":
			pk, _ := keys.NewPrivateKeyFromBytes(append(bytes.Repeat([]byte{0x44}, 31), 9))
			poor := neotest.NewSingleSigner(wallet.NewAccountFromPrivateKey(pk))
			tx := e.NewUnsignedTx(t, gas, "transfer", poor.ScriptHash(), accs[1].ScriptHash(), 1, nil)
			return sign(tx, poor)
		case "tx-overspend", "tx-overspend2":
			// accs[3] holds 2000 GAS: two transactions each paying 1500 GAS of system fee
			tx := e.NewUnsignedTx(t, gas, "transfer", accs[3].ScriptHash(), accs[1].ScriptHash(), 1, nil)
			if kind == "tx-overspend2" {
				tx.Nonce += 77
			}
			return e.SignTx(t, tx, 1500_0000_0000, accs[3])
		case "tx-badsig":
			tx := e.NewUnsignedTx(t, gas, "transfer", accs[0].ScriptHash(), accs[1].ScriptHash(), 1, nil)
			tx = sign(tx, accs[0])
			tx.Scripts[0].InvocationScript[10] ^= 1
			return tx
		case "tx-replay":
			for i := len(st.b.Blocks) - 1; i >= 1; i-- {
				if txs := st.b.Blocks[i].Transactions; len(txs) > 0 {
					return txs[0]
				}
			}
			return nil
		case "tx-extra-valid":
			tx := e.NewUnsignedTx(t, gas, "transfer", accs[2].ScriptHash(), accs[1].ScriptHash(), 3, nil)
			return sign(tx, accs[2])
		}
		return nil
	}
	for _, op := range in.Ops {
		hdrs := nextHdrs
		c06Run(co, in, st, op, valid, hdrs, poolTxs, mk)
	}
	return nil
}

func c06SignerOf(tx *transaction.Transaction, accs []neotest.Signer, e *neotest.Executor) neotest.Signer {
	for _, a := range accs {
		if a.ScriptHash() == tx.Signers[0].Account {
			return a
		}
	}
	return e.Validator
}

func c06Gen(r *rng, i int) c06Input {
	cfg := c02Cfg{SRIH: i%2 == 0, Backend: "mem", GC: i%8 >= 4}
	nb := 2 + r.intn(5)
	h := c02GenHistory(r, cfg, nb)
	var next, pool []c02Tx
	for j := 0; j < 2+r.intn(2); j++ {
		next = append(next, c02Tx{K: "gas", From: j % c02NAcc, To: (j + 1) % c02NAcc, Amt: int64(1 + r.intn(500))})
	}
	for j := 0; j < 1+r.intn(2); j++ {
		pool = append(pool, c02Tx{K: "gas", From: (j + 2) % c02NAcc, To: j % c02NAcc, Amt: int64(1 + r.intn(500))})
	}
	return c06Input{Cfg: cfg, Blocks: h.Blocks, Ahead: []int{0, 1, 0, 2}[(i/2)%4], Next: next, Pool: pool, Ops: c06AllOps}
}

func runC06(args []string) error {
	cf, fs := parseCommon("c06", args)
	fs.Parse(args)
	co := newCaseOut(cf.out, "Harness.C06", "N",
		"chain states of generated histories (with/without StateRootInHeader; next header unknown or 1-2 headers already recorded; mempool holding half of the block's transactions and others); "+
			"the valid next block and EVERY single corruption of it (each header field with and without re-signing, witness bytes, transaction list reorder/duplicate/drop/alter, expired/not-yet-valid/conflicting/under-funded/over-spending/badly signed/replayed transaction, truncated and padded encodings), each offered to a fresh replica; "+
			"a case is non-trivial when a corruption was applied; distinct by Coq term")
	co.shard = 200
	run := func(in c06Input) error {
		if len(in.Ops) == 1 && in.Ops[0] == "rejected-after-exec" {
			return c06RunH6(co, in)
		}
		if len(in.Ops) > 0 && strings.HasPrefix(in.Ops[0], "cms") {
			return c06RunConfl(co, c06StaleIn{Cfg: in.Cfg, Blocks: in.Blocks, Ops: in.Ops})
		}
		if len(in.Ops) > 0 && strings.Contains(in.Ops[0], "/raced") {
			return c06RunRace(co, c06StaleIn{Cfg: in.Cfg, Blocks: in.Blocks, Ops: in.Ops})
		}
		if len(in.Ops) > 0 && strings.Count(in.Ops[0], "/") == 2 {
			return c06RunStale(co, c06StaleIn{Cfg: in.Cfg, Blocks: in.Blocks, Ops: in.Ops})
		}
		return c06RunState(co, in)
	}
	if cf.replay != "" {
		cases, err := readReplay(cf.replay)
		if err != nil {
			return err
		}
		for _, c := range cases {
			var x struct {
				Input c06Input `json:"input"`
			}
			if err := json.Unmarshal(c, &x); err != nil {
				return err
			}
			if err := run(x.Input); err != nil {
				return err
			}
		}
		return co.finish()
	}
	r := newRng(cf.seed)
	for i := 0; i < cf.n; i++ {
		in := c06Gen(r, i)
		if err := run(in); err != nil {
			return fmt.Errorf("state %d: %w", i, err)
		}
		if i%2 == 0 {
			// stale-pool family: pool at H, intervening block, offer at H+2
			st := c06Input{Cfg: in.Cfg, Blocks: in.Blocks, Ops: c06StaleOps()}
			st.Cfg.GC = false
			if err := run(st); err != nil {
				return fmt.Errorf("state %d: %w", i, err)
			}
		}
		if i%2 == 0 {
			// admission racing block acceptance: T parked between its verification and its insertion, block H+1 meanwhile
			rc := c06Input{Cfg: in.Cfg, Blocks: in.Blocks, Ops: c06RaceOps()}
			rc.Cfg.GC = false
			if err := run(rc); err != nil {
				return fmt.Errorf("state %d: %w", i, err)
			}
		}
		if i%2 == 1 {
			// on-chain Conflicts backed by any signer of the offered transaction: position, distance, pooled/fresh
			cf := c06Input{Cfg: in.Cfg, Blocks: in.Blocks, Ops: c06CmsOps()}
			cf.Cfg.GC = false
			cf.Cfg.MTB = c06MTB
			if err := run(cf); err != nil {
				return fmt.Errorf("state %d: %w", i, err)
			}
		}
		if in.Cfg.SRIH && len(in.Blocks) >= 3 {
			// a block rejected AFTER it was executed (trie batch applied), previous block still in the write cache
			h6 := c06Input{Cfg: in.Cfg, Blocks: in.Blocks, Ops: []string{"rejected-after-exec"}}
			h6.Cfg.GC = true
			h6.Cfg.Backend = []string{"leveldb", "bolt", "mem"}[(i/2)%3]
			if err := run(h6); err != nil {
				return fmt.Errorf("state %d: %w", i, err)
			}
		}
	}
	return co.finish()
}

func c06OpIndex(op string) int {
	for i, o := range c06AllOps {
		if o == op {
			return i
		}
	}
	return 0
}

func c06RunH6(co *caseOut, in c06Input) error {
	kind := "rejected-after-exec"
	d, cls, err := c06H6(in, in.Cfg.Backend)
	if err != nil {
		return err
	}
	if d != "" {
		co.violation(kind, fmt.Sprintf("%s/db-changed backend=%s: a block refused by storeBlock after its trie batch was applied changes the ledger: compared with a replica that never saw it, %s", kind, in.Cfg.Backend, d), in, map[string]any{"diff": d})
	}
	co.add(kind, in.Cfg.Backend, true, in, map[string]any{"changed": d != "", "classes": cls}, fmt.Sprintf("CRejExec %s", coqBool(d != "")))
	return nil
}
