package main

// Helpers shared by c15/c16: contracts that CHANGE THEMSELVES (ContractManagement.update / destroy, or deploy another
// contract) and then, still in the same running context, do the guarded thing; on a chain where Domovoi (and every
// later hard-fork) activates at height c16SelfSwitch, so that the same deployed contracts can be exercised before and
// after it by test invocations.

import (
	"encoding/json"
	"fmt"

	"github.com/nspcc-dev/neo-go/pkg/config"
	"github.com/nspcc-dev/neo-go/pkg/core/interop/interopnames"
	"github.com/nspcc-dev/neo-go/pkg/core/native/nativenames"
	"github.com/nspcc-dev/neo-go/pkg/crypto/keys"
	"github.com/nspcc-dev/neo-go/pkg/io"
	"github.com/nspcc-dev/neo-go/pkg/neotest"
	"github.com/nspcc-dev/neo-go/pkg/smartcontract/callflag"
	"github.com/nspcc-dev/neo-go/pkg/smartcontract/manifest"
	"github.com/nspcc-dev/neo-go/pkg/smartcontract/nef"
	"github.com/nspcc-dev/neo-go/pkg/util"
	"github.com/nspcc-dev/neo-go/pkg/vm/emit"
	"github.com/nspcc-dev/neo-go/pkg/vm/opcode"
)

const c16SelfSwitch = 60 // height at which Domovoi and the later hard-forks activate on the self-change chain

type c16Self struct {
	c     *c16Chain
	stage int // 0: before Domovoi, 1: after
	mgmt  util.Uint160
	C     *neotest.Contract // callee: a, b (non-safe), s (safe), cw
	HW    *neotest.Contract // permissions [Management:*, C:[a]]   (update widens to C:*)
	HN    *neotest.Contract // permissions [Management:*, C:*]     (update narrows to C:[a])
	HG    *neotest.Contract // in group 1, wildcard permissions    (update leaves the group)
	HP    *neotest.Contract // in no group, wildcard permissions   (update joins group 1)
	K     *neotest.Contract // no group: the callee / caller of the C15 shapes
}

var c16SelfInst *c16Self

// c16SelfGet returns the self-change chain at the wanted stage (recreating it when it is already past that stage)
func c16SelfGet(stage int) (s *c16Self, err error) {
	defer func() {
		if r := recover(); r != nil {
			err = fmt.Errorf("self-change chain: %v", r)
		}
	}()
	if c16SelfInst == nil || c16SelfInst.stage > stage {
		if c16SelfInst != nil {
			c16SelfInst.c.close()
		}
		c := c16NewChainHF(nil, func(hf config.Hardfork) uint32 {
			if hf.Cmp(config.HFDomovoi) >= 0 {
				return c16SelfSwitch
			}
			return 0
		})
		s = &c16Self{c: c, mgmt: c.e.NativeHash(c.t, nativenames.Management)}
		wild := []manifest.Permission{*manifest.NewPermission(manifest.PermissionWildcard)}
		if s.C, err = c.deploy(s.spec("SC", wild, nil, util.Uint160{})); err != nil {
			return nil, err
		}
		if s.HW, err = c.deploy(s.spec("HW", s.perms(false), nil, s.C.Hash)); err != nil {
			return nil, err
		}
		if s.HN, err = c.deploy(s.spec("HN", s.perms(true), nil, s.C.Hash)); err != nil {
			return nil, err
		}
		if s.HG, err = c.deploy(s.spec("HG", wild, []*keys.PrivateKey{c16Key(0)}, s.C.Hash)); err != nil {
			return nil, err
		}
		if s.HP, err = c.deploy(s.spec("HP", wild, nil, s.C.Hash)); err != nil {
			return nil, err
		}
		if s.K, err = c.deploy(s.spec("SK", wild, nil, s.C.Hash)); err != nil {
			return nil, err
		}
		if c.bc.BlockHeight() >= c16SelfSwitch-2 {
			return nil, fmt.Errorf("set-up passed the switch height")
		}
		c16SelfInst = s
	}
	s = c16SelfInst
	if stage == 1 && s.c.bc.BlockHeight() < c16SelfSwitch {
		s.c.e.GenerateNewBlocks(s.c.t, int(c16SelfSwitch-s.c.bc.BlockHeight()))
	}
	s.stage = stage
	return s, nil
}

// permissions of the C16 helpers: Management (update/destroy/deploy are non-safe calls) plus C restricted or not
func (s *c16Self) perms(wide bool) []manifest.Permission {
	pm := manifest.NewPermission(manifest.PermissionHash, s.mgmt)
	pc := manifest.NewPermission(manifest.PermissionHash, s.C.Hash)
	if !wide {
		pc.Methods.Value = []string{"a"}
	}
	return []manifest.Permission{*pm, *pc}
}

// one method set for every helper (so that an updated manifest keeps the ABI): forwarders that first update / destroy
// the executing contract (or deploy another one), CheckWitness after the same, CALLT after the same
func (s *c16Self) spec(name string, perms []manifest.Permission, groups []*keys.PrivateKey, tokTarget util.Uint160) c16ContractSpec {
	ret := []byte{byte(opcode.RET)}
	mgmtCall := func(w *io.BinWriter, method string) { // args array already on the stack
		emit.Int(w, int64(callflag.All))
		emit.String(w, method)
		emit.Bytes(w, s.mgmt.BytesBE())
		emit.Syscall(w, interopnames.SystemContractCall)
		emit.Opcodes(w, opcode.DROP)
	}
	update := func(w *io.BinWriter) { // the new manifest is on top of the stack
		emit.Opcodes(w, opcode.PUSHNULL)
		emit.Int(w, 2)
		emit.Opcodes(w, opcode.PACK) // [nil, manifest]
		mgmtCall(w, "update")
	}
	destroy := func(w *io.BinWriter) {
		emit.Opcodes(w, opcode.NEWARRAY0)
		mgmtCall(w, "destroy")
	}
	deploy := func(w *io.BinWriter) { // nef on top, manifest below
		emit.Int(w, 2)
		emit.Opcodes(w, opcode.PACK)
		mgmtCall(w, "deploy")
	}
	then := func(pre func(*io.BinWriter), tail func(*io.BinWriter)) []byte {
		return c16Code(func(w *io.BinWriter) {
			if pre != nil {
				pre(w)
			}
			tail(w)
			emit.Opcodes(w, opcode.RET)
		})
	}
	call := func(w *io.BinWriter) { emit.Syscall(w, interopnames.SystemContractCall) }
	cw := func(w *io.BinWriter) { emit.Syscall(w, interopnames.SystemRuntimeCheckWitness) }
	callThenCw := func(w *io.BinWriter) {
		emit.Syscall(w, interopnames.SystemContractCall)
		emit.Opcodes(w, opcode.DROP)
		emit.Syscall(w, interopnames.SystemRuntimeCheckWitness)
	}
	ms := []c16Method{
		{Name: "a", Void: true, Body: ret}, {Name: "b", Void: true, Body: ret}, {Name: "s", Void: true, Safe: true, Body: ret},
		{Name: "fwd", NParams: 4, Body: then(nil, call)},
		{Name: "u_fwd", NParams: 5, Body: then(update, call)},
		{Name: "d_fwd", NParams: 4, Body: then(destroy, call)},
		{Name: "dep_fwd", NParams: 6, Body: then(deploy, call)},
		{Name: "cw", NParams: 1, Body: then(nil, cw)},
		{Name: "u_cw", NParams: 2, Body: then(update, cw)},
		{Name: "d_cw", NParams: 1, Body: then(destroy, cw)},
		{Name: "call_cw", NParams: 5, Body: then(nil, callThenCw)},
	}
	var toks []nef.MethodToken
	if !tokTarget.Equals(util.Uint160{}) {
		for i, m := range []string{"a", "b", "s"} {
			toks = append(toks, nef.MethodToken{Hash: tokTarget, Method: m, HasReturn: false, CallFlag: callflag.All})
			callt := func(w *io.BinWriter) { emit.Instruction(w, opcode.CALLT, []byte{byte(i), 0}) }
			ms = append(ms,
				c16Method{Name: fmt.Sprintf("n_t%d", i), Void: true, Body: then(nil, callt)},
				c16Method{Name: fmt.Sprintf("u_t%d", i), NParams: 1, Void: true, Body: then(update, callt)},
				c16Method{Name: fmt.Sprintf("d_t%d", i), Void: true, Body: then(destroy, callt)})
		}
	}
	return c16ContractSpec{Name: name, Perms: perms, Groups: groups, Methods: ms, Tokens: toks}
}

// the manifest (JSON) the helper h would have with other permissions / groups: same name, same ABI, same hash
func (s *c16Self) newManifest(name string, perms []manifest.Permission, groups []*keys.PrivateKey) []byte {
	ct := c16Build(s.c.owner.ScriptHash(), s.spec(name, perms, groups, s.C.Hash))
	b, err := json.Marshal(ct.Manifest)
	if err != nil {
		panic(err)
	}
	return b
}
