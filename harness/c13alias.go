package main

// Aliasing (after the sixth mutation round).  Every instruction's result is a fresh value: storage shared between a result
// and an operand is invisible until the result is mutated IN PLACE (SETITEM on a Buffer, REVERSEITEMS, MEMCPY destination)
// while another reference to the operand is alive - a DUP kept in a static slot, or the PUSHDATA constant inside the script
// bytes themselves.  Kind "alias": producer x boundary operands (empty operand, whole-length slice, index 0 / len) x
// in-place mutator, with a second reference to every operand and to the result kept in static slots and read back after
// the mutation; the same for compound results (Struct clone on APPEND / SETITEM / VALUES, KEYS, UNPACK + PACK, CONVERT
// Array <-> Struct).  c13Run runs every script twice from the very same []byte and compares the bytes afterwards.

import "github.com/nspcc-dev/neo-go/pkg/vm/opcode"

type c13AliasOperand struct {
	bs  []byte
	buf bool // Buffer (PUSHDATA + CONVERT) or ByteString (PUSHDATA: refers to the script bytes)
}

func (a *c13Asm) aliasPush(o c13AliasOperand) *c13Asm {
	a.op(opcode.PUSHDATA1, byte(len(o.bs))).raw(o.bs...)
	if o.buf {
		a.op(opcode.CONVERT, 0x30)
	}
	return a
}
func (a *c13Asm) keep(slot int) *c13Asm {
	return a.op(opcode.DUP).op(opcode.STSFLD0 + opcode.Opcode(slot))
}

// in-place mutators of the Buffer on top of the stack (which stays there); n = its expected length
func c13AliasMutate(a *c13Asm, m, n int) {
	switch m {
	case 0: // first byte
		a.op(opcode.DUP).op(opcode.PUSH0).op(opcode.PUSHINT8, 0x55).op(opcode.SETITEM)
	case 1: // last byte
		a.op(opcode.DUP).i(int64(max(n-1, 0))).op(opcode.PUSHINT8, 0x66).op(opcode.SETITEM)
	case 2:
		a.op(opcode.DUP).op(opcode.REVERSEITEMS)
	default: // MEMCPY dst=it di=0 src si=0 count=min(2,n)
		a.op(opcode.DUP).op(opcode.PUSH0).op(opcode.PUSHDATA1, 2, 0xaa, 0xbb).op(opcode.PUSH0).i(int64(min(2, n))).op(opcode.MEMCPY)
	}
}

type c13AliasCase struct {
	tag string
	a   *c13Asm
}

func c13AliasCases() []c13AliasCase {
	var out []c13AliasCase
	base := []byte{1, 2, 3, 4}
	fin := func(tag string, a *c13Asm, m, n, slots int) {
		a.keep(slots) // the result itself
		pre := append([]byte(nil), a.b...)
		c13AliasMutate(a, m, n)
		for s := 0; s <= slots; s++ {
			a.op(opcode.LDSFLD0 + opcode.Opcode(s))
		}
		out = append(out, c13AliasCase{tag, a})
		// the other direction: mutate the first operand in place (when it is a Buffer: else the mutator faults, in the model too)
		// after the result was produced, then read the result back
		b := &c13Asm{b: pre}
		b.op(opcode.LDSFLD0)
		c13AliasMutate(b, m, 4)
		for s := 0; s <= slots; s++ {
			b.op(opcode.LDSFLD0 + opcode.Opcode(s))
		}
		out = append(out, c13AliasCase{tag + "-operand", b})
	}
	start := func() *c13Asm { return (&c13Asm{}).op(opcode.INITSSLOT, 4) }
	for m := 0; m < 4; m++ {
		for _, bufA := range []bool{false, true} {
			// CAT: empty right / left / both operands, and both non-empty
			for _, bufB := range []bool{false, true} {
				for _, ab := range [][2][]byte{{base, {}}, {{}, base}, {base, {9, 8}}, {{}, {}}} {
					a := start()
					a.aliasPush(c13AliasOperand{ab[0], bufA}).keep(0).aliasPush(c13AliasOperand{ab[1], bufB}).keep(1).op(opcode.CAT)
					fin("CAT", a, m, len(ab[0])+len(ab[1]), 2)
				}
			}
			// SUBSTR: whole, prefix, suffix, middle, empty at 0 and at len
			for _, ol := range [][2]int{{0, 4}, {0, 2}, {2, 2}, {1, 2}, {0, 0}, {4, 0}} {
				a := start()
				a.aliasPush(c13AliasOperand{base, bufA}).keep(0).i(int64(ol[0])).i(int64(ol[1])).op(opcode.SUBSTR)
				fin("SUBSTR", a, m, ol[1], 1)
			}
			for _, n := range []int{0, 2, 4} {
				a := start()
				a.aliasPush(c13AliasOperand{base, bufA}).keep(0).i(int64(n)).op(opcode.LEFT)
				fin("LEFT", a, m, n, 1)
				a = start()
				a.aliasPush(c13AliasOperand{base, bufA}).keep(0).i(int64(n)).op(opcode.RIGHT)
				fin("RIGHT", a, m, n, 1)
			}
			// CONVERT to Buffer directly, and through a ByteString
			a := start()
			a.aliasPush(c13AliasOperand{base, bufA}).keep(0).op(opcode.CONVERT, 0x30)
			fin("CONVERT-buffer", a, m, 4, 1)
			a = start()
			a.aliasPush(c13AliasOperand{base, bufA}).keep(0).op(opcode.CONVERT, 0x28).keep(1).op(opcode.CONVERT, 0x30)
			fin("CONVERT-bytes-buffer", a, m, 4, 2)
			// MEMCPY: the source stays what it was when the destination is mutated afterwards, and vice versa
			a = start()
			a.op(opcode.PUSH4).op(opcode.NEWBUFFER).keep(0).op(opcode.DUP).op(opcode.PUSH0)
			a.aliasPush(c13AliasOperand{base, bufA}).keep(1).op(opcode.PUSH0).op(opcode.PUSH4).op(opcode.MEMCPY)
			fin("MEMCPY-dst", a, m, 4, 2)
		}
		// an Integer converted to a Buffer; NEWBUFFER twice (the second one must be zeros and independent of the first)
		a := start()
		a.i(0x01020304).keep(0).op(opcode.CONVERT, 0x30)
		fin("CONVERT-int-buffer", a, m, 4, 1)
		a = start()
		a.op(opcode.PUSH4).op(opcode.NEWBUFFER).keep(0)
		c13AliasMutate(a, m, 4)
		a.op(opcode.DROP).op(opcode.PUSH4).op(opcode.NEWBUFFER)
		fin("NEWBUFFER-twice", a, (m+1)%4, 4, 1)
	}
	// ---- compound results ----
	C := func(tag string, a *c13Asm) { out = append(out, c13AliasCase{tag, a}) }
	st := func() *c13Asm { // a Struct [1,2] kept in static 0, on the stack
		return start().op(opcode.PUSH2).op(opcode.PUSH1).op(opcode.PUSH2).op(opcode.PACKSTRUCT).keep(0)
	}
	setFirst := []opcode.Opcode{opcode.DUP, opcode.PUSH0, opcode.PUSH9, opcode.SETITEM} // x[0] = 9 on the compound on top
	mut := func(a *c13Asm) *c13Asm {
		for _, o := range setFirst {
			a.op(o)
		}
		return a
	}
	// APPEND / SETITEM of a Struct store a clone: mutate the original, read the stored one (and the other way round)
	a := st()
	a.op(opcode.NEWARRAY0).keep(1).op(opcode.SWAP).op(opcode.APPEND).op(opcode.LDSFLD0)
	mut(a).op(opcode.DROP).op(opcode.LDSFLD1).op(opcode.LDSFLD0)
	C("struct-append-clone", a)
	a = st()
	a.op(opcode.NEWARRAY0).keep(1).op(opcode.SWAP).op(opcode.APPEND).op(opcode.LDSFLD1).op(opcode.PUSH0).op(opcode.PICKITEM)
	mut(a).op(opcode.DROP).op(opcode.LDSFLD1).op(opcode.LDSFLD0)
	C("struct-append-clone-rev", a)
	a = st()
	a.op(opcode.PUSH1).op(opcode.NEWARRAY).keep(1).op(opcode.PUSH0).op(opcode.ROT).op(opcode.SETITEM).op(opcode.LDSFLD0)
	mut(a).op(opcode.DROP).op(opcode.LDSFLD1).op(opcode.LDSFLD0)
	C("struct-setitem-clone", a)
	a = st()
	a.op(opcode.NEWMAP).keep(1).op(opcode.PUSH7).op(opcode.ROT).op(opcode.SETITEM).op(opcode.LDSFLD0)
	mut(a).op(opcode.DROP).op(opcode.LDSFLD1).op(opcode.LDSFLD0)
	C("struct-map-setitem-clone", a)
	// nested Struct: the clone is deep
	a = start().op(opcode.PUSH5).op(opcode.PUSH1).op(opcode.PACKSTRUCT).keep(0).op(opcode.PUSH1).op(opcode.PACKSTRUCT).keep(1)
	a.op(opcode.NEWARRAY0).keep(2).op(opcode.SWAP).op(opcode.APPEND).op(opcode.LDSFLD0)
	mut(a).op(opcode.DROP).op(opcode.LDSFLD2).op(opcode.LDSFLD1).op(opcode.LDSFLD0)
	C("struct-nested-clone", a)
	// VALUES: new Array, Struct elements cloned; KEYS: new Array
	a = st()
	a.op(opcode.PUSH1).op(opcode.PACK).keep(1).op(opcode.VALUES).keep(2)
	mut(a).op(opcode.DROP).op(opcode.LDSFLD2).op(opcode.LDSFLD1).op(opcode.LDSFLD0)
	C("values-array-replace", a)
	a = st()
	a.op(opcode.PUSH1).op(opcode.PACK).keep(1).op(opcode.VALUES).keep(2).op(opcode.PUSH0).op(opcode.PICKITEM)
	mut(a).op(opcode.DROP).op(opcode.LDSFLD2).op(opcode.LDSFLD1).op(opcode.LDSFLD0)
	C("values-struct-clone", a)
	a = st()
	a.op(opcode.PUSH3).op(opcode.PUSH1).op(opcode.PACKMAP).keep(1).op(opcode.VALUES).keep(2).op(opcode.PUSH0).op(opcode.PICKITEM)
	mut(a).op(opcode.DROP).op(opcode.LDSFLD2).op(opcode.LDSFLD1).op(opcode.LDSFLD0)
	C("values-map-struct-clone", a)
	a = start().op(opcode.PUSH2).op(opcode.PUSH1).op(opcode.PUSH4).op(opcode.PUSH3).op(opcode.PUSH2).op(opcode.PACKMAP).keep(0).op(opcode.KEYS).keep(1)
	mut(a).op(opcode.DUP).op(opcode.REVERSEITEMS).op(opcode.DROP).op(opcode.LDSFLD1).op(opcode.LDSFLD0)
	C("keys-fresh", a)
	// UNPACK + PACK: a new Array with the same elements
	a = start().op(opcode.PUSH2).op(opcode.PUSH1).op(opcode.PUSH2).op(opcode.PACK).keep(0).op(opcode.UNPACK).op(opcode.PACK).keep(1)
	mut(a).op(opcode.DROP).op(opcode.LDSFLD1).op(opcode.LDSFLD0)
	C("unpack-pack-fresh", a)
	// CONVERT Array -> Struct and Struct -> Array: new compound; same type: the same one
	for _, c := range []struct {
		tag      string
		pack     opcode.Opcode
		to       byte
		expected string
	}{{"array-to-struct", opcode.PACK, 0x41, ""}, {"struct-to-array", opcode.PACKSTRUCT, 0x40, ""}, {"array-to-array", opcode.PACK, 0x40, ""}, {"struct-to-struct", opcode.PACKSTRUCT, 0x41, ""}} {
		a = start().op(opcode.PUSH2).op(opcode.PUSH1).op(opcode.PUSH2).op(c.pack).keep(0).op(opcode.CONVERT, c.to).keep(1)
		mut(a).op(opcode.DUP).op(opcode.PUSH7).op(opcode.APPEND).op(opcode.DROP).op(opcode.LDSFLD1).op(opcode.LDSFLD0)
		C("convert-"+c.tag, a)
	}
	// intended sharing: DUP of a Buffer / an Array is the same value (mutation is seen through both)
	a = start().op(opcode.PUSH3).op(opcode.NEWBUFFER).keep(0)
	c13AliasMutate(a, 0, 3)
	a.op(opcode.LDSFLD0)
	C("dup-buffer-shared", a)
	a = start().op(opcode.PUSH1).op(opcode.PUSH1).op(opcode.PACK).keep(0)
	mut(a).op(opcode.LDSFLD0)
	C("dup-array-shared", a)
	// REVERSEITEMS / CLEARITEMS / POPITEM on an Array that is also an element of another one
	a = start().op(opcode.PUSH2).op(opcode.PUSH1).op(opcode.PUSH2).op(opcode.PACK).keep(0).op(opcode.DUP).op(opcode.PUSH1).op(opcode.PACK).keep(1).op(opcode.DROP)
	a.op(opcode.DUP).op(opcode.REVERSEITEMS).op(opcode.DUP).op(opcode.POPITEM).op(opcode.DROP).op(opcode.LDSFLD1).op(opcode.LDSFLD0)
	C("inplace-shared-element", a)
	return out
}
