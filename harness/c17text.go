package main

// C17: text (JSON) decoders and their boundary lattice.

import (
	"bytes"
	"encoding/json"
	"fmt"
	"strings"

	"github.com/nspcc-dev/neo-go/pkg/core/block"
	"github.com/nspcc-dev/neo-go/pkg/core/state"
	"github.com/nspcc-dev/neo-go/pkg/core/transaction"
	"github.com/nspcc-dev/neo-go/pkg/smartcontract"
	"github.com/nspcc-dev/neo-go/pkg/smartcontract/manifest"
	"github.com/nspcc-dev/neo-go/pkg/util"
	"github.com/nspcc-dev/neo-go/pkg/vm/stackitem"
)

// generic JSON decoder check: unmarshal, marshal, unmarshal, marshal: fixpoint
func c17JSONDec(fresh func() any, post func(v any) string) func(b []byte) c17Dec {
	return func(b []byte) c17Dec {
		v := fresh()
		if err := json.Unmarshal(b, v); err != nil {
			return c17Dec{Err: err.Error(), Size: -1}
		}
		out := c17Dec{OK: true, Size: -1}
		if post != nil {
			out.Hash = post(v)
		}
		j1, err := json.Marshal(v)
		if err != nil {
			out.Note = "accepted JSON value cannot be marshalled: " + err.Error()
			return out
		}
		out.Reenc = hx(j1)
		v2 := fresh()
		if err := json.Unmarshal(j1, v2); err != nil {
			out.Note = "re-encoding is rejected by the decoder: " + err.Error()
			return out
		}
		j2, err := json.Marshal(v2)
		if err != nil || !bytes.Equal(j1, j2) {
			out.Note = "re-encoding is not a fixpoint of decode;encode"
		}
		return out
	}
}

func c17ItemJSONDec(best bool) func(b []byte) c17Dec {
	return func(b []byte) c17Dec {
		it, err := stackitem.FromJSON(b, 1024, best)
		if err != nil {
			return c17Dec{Err: err.Error(), Size: -1}
		}
		out := c17Dec{OK: true, Size: -1}
		j1, err := stackitem.ToJSON(it)
		if err != nil {
			out.Err = "tojson: " + err.Error() // integers above 2^53 and invalid UTF-8 are legitimately not representable
			return out
		}
		out.Reenc = hx(j1)
		it2, err := stackitem.FromJSON(j1, 1024, best)
		if err != nil {
			out.Note = "re-encoding is rejected by the decoder: " + err.Error()
			return out
		}
		j2, err := stackitem.ToJSON(it2)
		if err != nil || !bytes.Equal(j1, j2) {
			out.Note = "re-encoding is not a fixpoint of decode;encode"
		}
		return out
	}
}

func c17TextTypes() []c17Type {
	txj := func(r *rng) []byte {
		b, err := json.Marshal(c17TxFromDesc(r))
		if err != nil {
			panic(err)
		}
		return b
	}
	itemj := func(r *rng) []byte {
		for {
			b, err := stackitem.ToJSON(c17GenJSONItem(r, 3))
			if err == nil {
				return b
			}
		}
	}
	return []c17Type{
		{name: "item/json", text: true, gen: itemj, dec: c17ItemJSONDec(true)},
		{name: "item/json53", text: true, gen: itemj, dec: c17ItemJSONDec(false)},
		{name: "item/jsontypes", text: true, gen: func(r *rng) []byte {
			b, err := stackitem.ToJSONWithTypes(c17GenStackItem(r))
			if err != nil {
				panic(err)
			}
			return b
		}, dec: func(b []byte) c17Dec {
			it, err := stackitem.FromJSONWithTypes(b)
			if err != nil {
				return c17Dec{Err: err.Error(), Size: -1}
			}
			out := c17Dec{OK: true, Size: -1}
			j1, err := stackitem.ToJSONWithTypes(it)
			if err != nil {
				out.Err = "tojson: " + err.Error()
				return out
			}
			out.Reenc = hx(j1)
			it2, err := stackitem.FromJSONWithTypes(j1)
			if err != nil {
				out.Note = "re-encoding is rejected by the decoder: " + err.Error()
				return out
			}
			if j2, err := stackitem.ToJSONWithTypes(it2); err != nil || !bytes.Equal(j1, j2) {
				out.Note = "re-encoding is not a fixpoint of decode;encode"
			}
			return out
		}},
		{name: "tx/json", text: true, gen: txj, dec: c17JSONDec(func() any { return &transaction.Transaction{} }, func(v any) string {
			t := v.(*transaction.Transaction)
			return fmt.Sprintf("%s/%d", hx(t.Hash().BytesBE()), t.Size())
		})},
		{name: "block/json", text: true, gen: func(r *rng) []byte {
			b, err := json.Marshal(c17GenBlock(r, false))
			if err != nil {
				panic(err)
			}
			return b
		}, dec: c17JSONDec(func() any { return block.New(false) }, func(v any) string { return hx(v.(*block.Block).Hash().BytesBE()) })},
		{name: "header/json", text: true, gen: func(r *rng) []byte {
			b, err := json.Marshal(c17GenHeader(r, false))
			if err != nil {
				panic(err)
			}
			return b
		}, dec: c17JSONDec(func() any { return &block.Header{} }, func(v any) string { return hx(v.(*block.Header).Hash().BytesBE()) })},
		{name: "signer/json", text: true, gen: func(r *rng) []byte {
			s := c17GenSigner(r, 0).build()
			b, _ := json.Marshal(&s)
			return b
		}, dec: c17JSONDec(func() any { return &transaction.Signer{} }, nil)},
		{name: "manifest/json", text: true, gen: func(r *rng) []byte {
			b, err := json.Marshal(c17GenManifest(r))
			if err != nil {
				panic(err)
			}
			return b
		}, dec: c17JSONDec(func() any { return &manifest.Manifest{} }, func(v any) string {
			m := v.(*manifest.Manifest)
			if m.IsValid(util.Uint160{}, true) == nil {
				if it, err := m.ToStackItem(); err == nil {
					m2 := &manifest.Manifest{}
					if err := m2.FromStackItem(it); err != nil {
						return "stackitem form rejected: " + err.Error()
					}
				}
			}
			return ""
		})},
		{name: "notification/json", text: true, gen: func(r *rng) []byte {
			budget := 10
			ne := &state.NotificationEvent{Name: "Transfer", Item: stackitem.NewArray([]stackitem.Item{c17GenItem(r, 2, &budget).build()})}
			b, err := json.Marshal(ne)
			if err != nil {
				panic(err)
			}
			return b
		}, dec: c17JSONDec(func() any { return &state.NotificationEvent{} }, nil)},
		{name: "param/json", text: true, gen: func(r *rng) []byte {
			p := smartcontract.Parameter{Type: smartcontract.ArrayType, Value: []smartcontract.Parameter{
				{Type: smartcontract.IntegerType, Value: pick(r, latticeIntsCached(r))},
				{Type: smartcontract.ByteArrayType, Value: r.bytes(r.intn(10))},
				{Type: smartcontract.StringType, Value: "s"},
				{Type: smartcontract.BoolType, Value: r.bool()},
				{Type: smartcontract.Hash160Type, Value: util.Uint160{1, 2}},
			}}
			b, err := json.Marshal(p)
			if err != nil {
				panic(err)
			}
			return b
		}, dec: c17JSONDec(func() any { return &smartcontract.Parameter{} }, nil)},
	}
}

// items that ToJSON accepts: no buffers/structs restrictions? (ToJSON handles Array, Map with string keys, ByteString as base64 text, Integer <= 2^53, Bool, Null)
func c17GenJSONItem(r *rng, depth int) stackitem.Item {
	if depth <= 0 || r.chance(50) {
		switch r.intn(5) {
		case 0:
			return stackitem.Null{}
		case 1:
			return stackitem.NewBool(r.bool())
		case 2:
			return stackitem.Make(pick(r, []int64{0, 1, -1, 1 << 31, 1<<53 - 1, -(1<<53 - 1), int64(r.intn(1000))}))
		default:
			return stackitem.NewByteArray(r.bytes(pick(r, []int{0, 1, 3, 20})))
		}
	}
	if r.bool() {
		l := []stackitem.Item{}
		for i, n := 0, r.intn(4); i < n; i++ {
			l = append(l, c17GenJSONItem(r, depth-1))
		}
		return stackitem.NewArray(l)
	}
	m := stackitem.NewMap()
	for i, n := 0, r.intn(3); i < n; i++ {
		m.Add(stackitem.Make(pick(r, []string{"a", "key", "k" + fmt.Sprint(i), strings.Repeat("x", 64)})), c17GenJSONItem(r, depth-1))
	}
	return m
}

// numeric / structural boundary lattice for JSON stack items: exponents, long digit strings, deep nesting, long keys.
// Exponents stay small enough that the check itself cannot hang (the guard kills a decode after its time limit anyway):
// the quick tier shows the defect class with inputs that need well under a second.
func c17JSONLattice(tier string) []string {
	out := []string{"0", "-0", "1", "-1", "9007199254740991", "9007199254740992", "9007199254740993", "-9007199254740993",
		"1e0", "1e1", "1E2", "1e+2", "12e-1", "120e-1", "1.0", "1.5", "123.000", "0.1e1", "2.8e+22", "1e22", "1e23",
		"1e76", "1e77", "1e78", "57896044618658097711785492504343953926634992332820282019728792003956564819967", // 2^255-1
		"57896044618658097711785492504343953926634992332820282019728792003956564819968",                          // 2^255
		"-57896044618658097711785492504343953926634992332820282019728792003956564819968",
		"-57896044618658097711785492504343953926634992332820282019728792003956564819969",
		"115792089237316195423570985008687907853269984665640564039457584007913129639936", // 2^256
		"1e100", "-1e100", "1e308", "1e309", "1e400", "1e1000", "1e-1", "1e-400", "1e-1000",
		"1e10000", "1e100000", "1e-10000",
		strings.Repeat("9", 78), strings.Repeat("9", 400), strings.Repeat("9", 5000), "1" + strings.Repeat("0", 5000),
		"0." + strings.Repeat("0", 400) + "1e401", "1" + strings.Repeat("0", 300) + "e-300",
		"1e", "e1", "1e+", "--1", "+1", "0x10", "1_0", "Infinity", "NaN", "1e1e1", ".5", "5.", "01",
		`{"` + strings.Repeat("k", 64) + `":1}`, `{"` + strings.Repeat("k", 65) + `":1}`, `{"` + strings.Repeat("k", 300) + `":1}`,
		`{"a":1,"a":2}`, `{"a":{"a":{"a":1}}}`, `{"":1}`, `{"\u0000":1}`,
		strings.Repeat("[", 10) + strings.Repeat("]", 10), strings.Repeat("[", 11) + strings.Repeat("]", 11), strings.Repeat("[", 2000),
		strings.Repeat(`{"a":`, 10) + "1" + strings.Repeat("}", 10), strings.Repeat(`{"a":`, 11) + "1" + strings.Repeat("}", 11),
		"[" + strings.Repeat("1,", 1022) + "1]", "[" + strings.Repeat("1,", 1024) + "1]",
		`"` + strings.Repeat("QQ==", 100) + `"`, `"not base64 !"`, `"\ud800"`, "null", "true", "[null,true,false]", "", " ", "[", "]", "{", "}", `{"a"}`, `{"a":}`, "1 2", "[1]x",
	}
	if tier == "thorough" {
		out = append(out, "1e300000", "1e-100000", "1e1000000")
	}
	return out
}
