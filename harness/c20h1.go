package main

// c20h1: experiment for hypothesis H1 (not part of any check). A node restored at two paths gets its reference count
// incremented by two separate Puts inside ONE AddMPTNodes call; a concurrent flusher (VerifPersist in a loop, standing in
// for Run's timer) sometimes lands between them; the node is then "crashed" (LevelDB closed under the write cache) and the
// database inspected. Nothing here is deterministic: it only shows whether the state is reachable through the module.

import (
	"encoding/binary"
	"fmt"
	"os"
	"sync/atomic"
	"time"

	"github.com/nspcc-dev/neo-go/pkg/core"
	"github.com/nspcc-dev/neo-go/pkg/core/block"
	"github.com/nspcc-dev/neo-go/pkg/core/storage"
	"github.com/nspcc-dev/neo-go/pkg/core/storage/dbconfig"
	"github.com/nspcc-dev/neo-go/pkg/util"
)

func init() { register("c20h1", runC20H1) }

func c20Count(st storage.Store, h util.Uint256) int {
	v, err := st.Get(append([]byte{byte(storage.DataMPT)}, h.BytesBE()...))
	if err != nil {
		return 0
	}
	return int(binary.LittleEndian.Uint32(v[len(v)-4:]))
}

func runC20H1(args []string) error {
	cf, fs := parseCommon("c20h1", args)
	fs.Parse(args)
	core.VerifSetPersistInterval(time.Hour)
	src := c20GetSource(c20SrcParams{Seed: 2000, Height: 14, PerBlock: 4})
	P := uint32(12)
	root := src.root(P)
	nodes := src.nodes(root)
	idOf := map[util.Uint256]int{}
	for i, n := range nodes {
		idOf[n.h] = i
	}
	hits, tries := 0, 0
	dist := map[int]int{}
	for attempt := 0; attempt < cf.n; attempt++ {
		dir, _ := os.MkdirTemp("", "c20h1-")
		b, err := c20OpenBolt(dir)
		if err != nil {
			return err
		}
		m := b.bc.GetStateSyncModule()
		if err := m.Init(src.height); err != nil {
			return err
		}
		var hs []*block.Header
		for i := uint32(1); i <= src.height; i++ {
			hs = append(hs, src.header(i))
		}
		if err := m.AddHeaders(hs...); err != nil {
			return err
		}
		paths := map[int]int{} // node id -> number of paths it is requested at, tracked from the parents delivered
		paths[0] = 1
		var stop atomic.Bool
		done := make(chan struct{})
		go func() {
			for !stop.Load() {
				b.bc.VerifPersist()
			}
			close(done)
		}()
		var target util.Uint256
		found := false
		for round := 0; round < 400 && m.NeedStorageData() && !found; round++ {
			for _, h := range m.GetUnknownMPTNodesBatch(1 << 20) {
				id := idOf[h]
				if paths[id] >= 2 {
					// this delivery makes two Puts for one key
					tries++
					_ = m.AddMPTNodes([][]byte{nodes[id].bytes})
					target, found = h, true
					break
				}
				_ = m.AddMPTNodes([][]byte{nodes[id].bytes})
				for _, k := range nodes[id].kids {
					paths[idOf[k]] += paths[id]
				}
			}
		}
		stop.Store(true)
		<-done
		if found {
			// crash: the write cache is lost, the database file stays as the last flush left it
			b.st.Close()
			disk, err := storage.NewLevelDBStore(dbconfig.LevelDBOptions{DataDirectoryPath: dir})
			if err == nil {
				c := c20Count(disk, target)
				dist[c]++
				if c == 1 {
					hits++
					fmt.Printf("attempt %d: node %s restored at 2 paths in one AddMPTNodes call, database after the crash has reference count 1\n", attempt, target.StringLE())
				}
				disk.Close()
			}
		} else {
			b.close()
		}
		os.RemoveAll(dir)
	}
	fmt.Println("reference counts found on disk after the crash:", dist)
	fmt.Printf("H1: %d of %d two-path deliveries were cut between their two Puts by a concurrent flush\n", hits, tries)
	return nil
}
