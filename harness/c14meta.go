package main

// C14 (iii) — manifest and debug information versus the bytecode: every method offset is an instruction
// boundary, the code there reserves exactly the declared number of arguments, names / parameter counts /
// ABI types of the manifest are those of the source. Direct checks on what the compiler returned.

import (
	"fmt"
	"strings"
	"unicode"

	"github.com/nspcc-dev/neo-go/pkg/compiler"
	"github.com/nspcc-dev/neo-go/pkg/smartcontract/scparser"
	"github.com/nspcc-dev/neo-go/pkg/vm/opcode"
)

type c14Ins struct {
	off   int
	op    opcode.Opcode
	param []byte
}

// c14Decode splits the script into instructions; err != nil when the script is not well-formed.
func c14Decode(script []byte) (ins []c14Ins, at map[int]int, err error) {
	at = map[int]int{}
	ctx := scparser.NewContext(script, 0)
	for ctx.NextIP() < len(script) {
		op, param, e := ctx.Next()
		if e != nil {
			return nil, nil, fmt.Errorf("offset %d: %v", ctx.IP(), e)
		}
		at[ctx.IP()] = len(ins)
		ins = append(ins, c14Ins{off: ctx.IP(), op: op, param: append([]byte{}, param...)})
	}
	return ins, at, nil
}

func c14ABIType(t string) string {
	switch {
	case t == "":
		return "Void"
	case t == "int":
		return "Integer"
	case t == "bool":
		return "Boolean"
	case t == "string":
		return "String"
	case t == "[]byte":
		return "ByteArray"
	case strings.HasPrefix(t, "map["):
		return "Map"
	case strings.HasPrefix(t, "["):
		return "Array"
	default:
		return "Array" // struct or pointer to struct
	}
}

func c14LowerFirst(s string) string {
	r := []rune(s)
	r[0] = unicode.ToLower(r[0])
	return string(r)
}

func c14Meta(co *caseOut, u c14Unit, cc *c14Compiled) {
	bad := func(fn, format string, a ...any) {
		co.violation("meta", "manifest/debug info disagrees with the bytecode: "+fmt.Sprintf(format, a...),
			c14DiffInput{Unit: u, Fn: fn, Note: "meta"}, nil)
	}
	ins, at, err := c14Decode(cc.script)
	if err != nil {
		bad("", "script does not decode: %v", err)
		return
	}
	n := 0
	// debug information: every method
	for i := range cc.di.Methods {
		m := &cc.di.Methods[i]
		s, e := int(m.Range.Start), int(m.Range.End)
		is, ok1 := at[s]
		ie, ok2 := at[e]
		if !ok1 || !ok2 || s > e {
			bad(m.ID, "method %s: range %d..%d is not made of instruction boundaries", m.ID, s, e)
			continue
		}
		n++
		if ins[ie].op != opcode.RET {
			bad(m.ID, "method %s: range ends at %s, not RET", m.ID, ins[ie].op)
		}
		if m.ID == "_initialize" {
			continue
		}
		want := len(m.Parameters)
		if !m.IsFunction {
			want++ // receiver
		}
		got := 0
		if ins[is].op == opcode.INITSLOT {
			got = int(ins[is].param[1])
		}
		if got != want {
			bad(m.ID, "method %s at %d: %d parameters declared, code reserves %d argument slots (%s)", m.ID, s, want, got, ins[is].op)
		}
	}
	// manifest: exported functions of the main package
	mf, err := cc.di.ConvertToManifest(&compiler.Options{Name: "c14"})
	if err != nil {
		bad("", "ConvertToManifest: %v", err)
		return
	}
	byName := map[string]c14Func{}
	for _, f := range u.Funcs {
		byName[c14LowerFirst(f.Name)] = f
	}
	seen := map[string]bool{}
	for _, am := range mf.ABI.Methods {
		if am.Name == "_initialize" || am.Name == "_deploy" {
			continue
		}
		seen[am.Name] = true
		f, ok := byName[am.Name]
		if !ok {
			continue // exported, but not an entry function of the harness (unsupported parameter type)
		}
		n++
		if am.Offset != cc.offsets[f.Name] {
			bad(f.Name, "manifest offset of %s is %d, debug info says %d", am.Name, am.Offset, cc.offsets[f.Name])
		}
		if len(am.Parameters) != len(f.Params) {
			bad(f.Name, "manifest gives %s %d parameters, the source has %d", am.Name, len(am.Parameters), len(f.Params))
			continue
		}
		for i, p := range am.Parameters {
			if p.Type.String() != c14ABIType(f.Params[i]) {
				bad(f.Name, "manifest parameter %d of %s is %s, source type %s", i, am.Name, p.Type, f.Params[i])
			}
		}
		if am.ReturnType.String() != c14ABIType(f.Ret) {
			bad(f.Name, "manifest return type of %s is %s, source type %q", am.Name, am.ReturnType, f.Ret)
		}
		is, ok := at[am.Offset]
		if !ok {
			bad(f.Name, "manifest offset %d of %s is not an instruction boundary", am.Offset, am.Name)
			continue
		}
		got := 0
		if ins[is].op == opcode.INITSLOT {
			got = int(ins[is].param[1])
		}
		if got != len(am.Parameters) {
			bad(f.Name, "manifest method %s at %d: %d parameters, code reserves %d argument slots", am.Name, am.Offset, len(am.Parameters), got)
		}
	}
	for name, f := range byName {
		if !seen[name] {
			bad(f.Name, "exported function %s is missing from the manifest", f.Name)
		}
	}
	if v, ok := co.extra["x_meta_checks"].(int); ok {
		co.extra["x_meta_checks"] = v + n
	} else {
		co.extra["x_meta_checks"] = n
	}
}
