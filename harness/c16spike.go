package main

import (
	"fmt"
	"time"

	"github.com/nspcc-dev/neo-go/pkg/core/interop/interopnames"
	"github.com/nspcc-dev/neo-go/pkg/core/native/nativenames"
	"github.com/nspcc-dev/neo-go/pkg/core/transaction"
	"github.com/nspcc-dev/neo-go/pkg/io"
	"github.com/nspcc-dev/neo-go/pkg/smartcontract/callflag"
	"github.com/nspcc-dev/neo-go/pkg/smartcontract/manifest"
	"github.com/nspcc-dev/neo-go/pkg/smartcontract/trigger"
	"github.com/nspcc-dev/neo-go/pkg/vm/emit"
	"github.com/nspcc-dev/neo-go/pkg/vm/opcode"
)

func init() { register("c16spike", runC16Spike) }

func runC16Spike(args []string) error {
	t0 := time.Now()
	c := c16NewChain()
	defer c.close()
	fmt.Println("chain", time.Since(t0))
	spec := c16ContractSpec{Name: "P", Perms: []manifest.Permission{*manifest.NewPermission(manifest.PermissionWildcard)},
		Methods: []c16Method{
			{Name: "fwd", NParams: 4, Body: c16SyscallBody(interopnames.SystemContractCall, false)},
			{Name: "onNEP17Payment", NParams: 3, Void: true, Body: c16Code(func(w *io.BinWriter) { emit.Opcodes(w, opcode.CLEAR, opcode.RET) })},
			{Name: "nop", NParams: 0, Void: true, Body: []byte{byte(opcode.RET)}},
		}}
	p, err := c.deploy(spec)
	if err != nil {
		return err
	}
	fmt.Println("deployed", p.Hash.StringLE(), time.Since(t0))
	neo := c.e.NativeHash(c.t, nativenames.Neo)
	own := c.owner.ScriptHash()
	ci := c.e.NewInvoker(neo, c.owner)
	ci.Invoke(c.t, true, "transfer", own, p.Hash, 1000, nil)
	pub := c.owner.(interface{ Script() []byte })
	_ = pub
	// register the validator key as a candidate
	vpub := c.bc.GetConfig().StandbyCommittee[0]
	fmt.Println("standby", vpub)
	c.e.GenerateNewBlocks(c.t, 5)
	fmt.Println("blocks", c.bc.BlockHeight(), time.Since(t0))
	sg := []transaction.Signer{{Account: own, Scopes: transaction.Global}}
	t1 := time.Now()
	for f := 0; f < 16; f++ {
		script := c16Code(func(w *io.BinWriter) {
			emit.AppCall(w, p.Hash, "fwd", callflag.All, neo, "vote", f, []any{p.Hash, nil})
		})
		obs, _ := c.invoke(script, sg, neo, 3, trigger.Application, callflag.All, true)
		fmt.Printf("f=%d %+v\n", f, obs)
	}
	fmt.Println("16 invocations", time.Since(t1))
	return nil
}
