package main

// C11, second sub-command "c11gc": WHICH HEIGHT the MPT garbage collector is run for.
//
// Blockchain.tryRunGC derives the GC target from the PERSISTED height, because stateroot.Module.GC deletes from the
// persistent store while newer blocks may live in the write cache only.  A neotest chain with RemoveUntraceableBlocks,
// a small MaxTraceableBlocks and GC period 1 is driven through: blocks, a flush (VerifPersist), MORE blocks that stay
// in the write cache, the GC half of a Run tick (hook VerifTryRunGC), then a "crash": a second node is opened on a copy
// of the persistent store alone.  Checked directly: on the recovered node (height p) every state of its traceable
// window [p-MTB+1, p] reads back node for node (own walker over the raw store), on the running node every state of
// [H-MTB+1, H] reads back through the state module.  Coq side (Harness/C11.v, CGcRuns): the raw DataMPT dump of the
// persistent store before and after every GC against the model gc at the target computed from the persisted height.

import (
	"encoding/binary"
	"encoding/json"
	"fmt"
	"testing"

	"github.com/nspcc-dev/neo-go/pkg/config"
	"github.com/nspcc-dev/neo-go/pkg/core"
	"github.com/nspcc-dev/neo-go/pkg/core/mpt"
	"github.com/nspcc-dev/neo-go/pkg/core/storage"
	"github.com/nspcc-dev/neo-go/pkg/core/transaction"
	"github.com/nspcc-dev/neo-go/pkg/io"
	"github.com/nspcc-dev/neo-go/pkg/neotest"
	"github.com/nspcc-dev/neo-go/pkg/neotest/chain"
	"github.com/nspcc-dev/neo-go/pkg/smartcontract/callflag"
	"github.com/nspcc-dev/neo-go/pkg/util"
	"github.com/nspcc-dev/neo-go/pkg/vm/emit"
	"github.com/nspcc-dev/neo-go/pkg/vm/opcode"
	"go.uber.org/zap"
)

func init() { register("c11gc", runC11GC) }

type c11T struct {
	testing.TB
	cleanups []func()
}
type c11Fail struct{ msg string }

func (t *c11T) Helper()                   {}
func (t *c11T) Name() string              { return "nghx-c11" }
func (t *c11T) Logf(string, ...any)       {}
func (t *c11T) Log(...any)                {}
func (t *c11T) Errorf(f string, a ...any) { panic(c11Fail{fmt.Sprintf(f, a...)}) }
func (t *c11T) Fatalf(f string, a ...any) { panic(c11Fail{fmt.Sprintf(f, a...)}) }
func (t *c11T) Fatal(a ...any)            { panic(c11Fail{fmt.Sprint(a...)}) }
func (t *c11T) Error(a ...any)            { panic(c11Fail{fmt.Sprint(a...)}) }
func (t *c11T) FailNow()                  { panic(c11Fail{"FailNow"}) }
func (t *c11T) Fail()                     { panic(c11Fail{"Fail"}) }
func (t *c11T) Failed() bool              { return false }
func (t *c11T) Cleanup(f func())          { t.cleanups = append(t.cleanups, f) }
func (t *c11T) done() {
	for i := len(t.cleanups) - 1; i >= 0; i-- {
		t.cleanups[i]()
	}
}

type c11GCInput struct {
	MTB     uint32   `json:"mtb"`
	Echidna uint32   `json:"echidna,omitempty"` // height of the Echidna hard fork (and of the later ones); 0 = from genesis
	GCP     uint32   `json:"gcp,omitempty"`     // GarbageCollectionPeriod, 0 = 1
	GMTB    uint32   `json:"gmtb,omitempty"`    // Genesis.MaxTraceableBlocks (what Policy is initialised with at Echidna), 0 = MTB
	Ops     []string `json:"ops"`               // "b" empty block, "t" block with a GAS transfer, "s" block in which the committee lowers MaxTraceableBlocks by one, "p" flush the write cache, "g" GC half of a Run tick + crash check
}

func (in c11GCInput) gmtb() uint32 {
	if in.GMTB == 0 {
		return in.MTB
	}
	return in.GMTB
}

func (in c11GCInput) gcp() uint32 {
	if in.GCP == 0 {
		return 1
	}
	return in.GCP
}

func c11ChainCfgIn(in c11GCInput) func(*config.Blockchain) {
	return func(c *config.Blockchain) {
		c.Hardforks = map[string]uint32{}
		late := false
		for _, hf := range config.Hardforks {
			if hf == config.HFEchidna {
				late = true
			}
			if late {
				c.Hardforks[hf.String()] = in.Echidna
			} else {
				c.Hardforks[hf.String()] = 0
			}
		}
		c.RemoveUntraceableBlocks = true
		c.MaxTraceableBlocks = in.MTB
		c.Genesis.MaxTraceableBlocks = in.gmtb()
		c.MaxValidUntilBlockIncrement = 1
		c.Genesis.MaxValidUntilBlockIncrement = 1
		c.GarbageCollectionPeriod = in.gcp()
	}
}

func c11ChainCfg(mtb uint32) func(*config.Blockchain) { return c11ChainCfgIn(c11GCInput{MTB: mtb}) }

// c11CopyStore copies everything a MemoryStore holds (the "disk" after a crash).
func c11CopyStore(src storage.Store) *storage.MemoryStore {
	dst := storage.NewMemoryStore()
	puts, stor := map[string][]byte{}, map[string][]byte{}
	for b := 0; b < 256; b++ {
		src.Seek(storage.SeekRange{Prefix: []byte{byte(b)}}, func(k, v []byte) bool {
			vv := append([]byte{}, v...)
			if storage.KeyPrefix(b) == storage.STStorage || storage.KeyPrefix(b) == storage.STTempStorage {
				stor[string(k)] = vv
			} else {
				puts[string(k)] = vv
			}
			return true
		})
	}
	_ = dst.PutChangeSet(puts, stor)
	return dst
}

func c11RunGC(co *caseOut, in c11GCInput) {
	kind := "gc_persisted"
	failed := false
	viol := func(note string, impl any) {
		if !failed {
			failed = true
			co.violation(kind, note, in, impl)
		}
	}
	if in.MTB < 1 || in.MTB > 16 || in.GMTB > in.MTB {
		co.add(kind, "malformed", false, in, nil, "CGcRuns 0 []")
		return
	}
	t := &c11T{}
	defer t.done()
	bottom := storage.NewMemoryStore()
	var bc *core.Blockchain
	var acc neotest.Signer
	if p := catch(func() {
		bc, acc = chain.NewSingleWithOptions(t, &chain.Options{Logger: zap.NewNop(), Store: bottom, BlockchainConfigHook: c11ChainCfgIn(in)})
	}); p != "" {
		viol("chain construction failed: "+p, nil)
		return
	}
	e := neotest.NewExecutor(t, bc, acc, acc)
	ids := &c11Ids{m: map[util.Uint256]int{}}
	oldPersisted := bc.VerifPersistedHeight()
	var runs []string
	collected, cached := false, false
	// the model of GetMaxTraceableBlocks: the configuration value before Echidna, the value the Policy contract stores from
	// Echidna on (the genesis setting at first, lowered by the committee later); never 0
	policyID := int32(0)
	for _, n := range bc.GetNatives() {
		if n.Manifest.Name == "PolicyContract" {
			policyID = n.ID
		}
	}
	getterBad := false
	mtbAt := []uint32{} // mtbAt[h]: the model's value while the chain stands at height h
	noteMTB := func() {
		h := bc.BlockHeight()
		want := in.MTB
		if h >= in.Echidna && h == 0 {
			want = in.gmtb()
		} else if h >= in.Echidna {
			want = 0
			bc.SeekStorage(policyID, []byte{23}, func(k, v []byte) bool {
				if len(k) == 0 {
					for i := len(v) - 1; i >= 0; i-- {
						want = want<<8 | uint32(v[i])
					}
				}
				return true
			})
		}
		for uint32(len(mtbAt)) <= h {
			mtbAt = append(mtbAt, want)
		}
		mtbAt[h] = want
		if got := bc.GetMaxTraceableBlocks(); (got != want || got == 0) && !getterBad {
			getterBad = true // reported once; the history goes on so that the consequences for the collector show as well
			co.violation(kind, "GetMaxTraceableBlocks does not return the configured value before Echidna / the value the Policy contract holds from Echidna on",
				in, map[string]any{"height": h, "echidna": in.Echidna, "got": got, "want": want})
		}
	}
	noteMTB()
	lowered, flushed, loweredInCache := false, false, false
	for oi, op := range in.Ops {
		if failed {
			break
		}
		switch op {
		case "b", "t", "s":
			if p := catch(func() {
				if op == "b" {
					e.AddNewBlock(t)
					return
				}
				if op == "s" {
					cur := bc.GetMaxTraceableBlocks()
					if cur <= 2 || bc.BlockHeight()+1 < in.Echidna {
						e.AddNewBlock(t)
						return
					}
					w := io.NewBufBinWriter()
					emit.AppCall(w.BinWriter, e.NativeHash(t, "PolicyContract"), "setMaxTraceableBlocks", callflag.All, int64(cur-1))
					tx := e.PrepareInvocationNoSign(t, w.Bytes())
					tx.Signers = []transaction.Signer{{Account: acc.ScriptHash(), Scopes: transaction.Global}}
					neotest.AddNetworkFee(t, bc, tx, acc)
					tx.SystemFee = 10_0000_0000
					if err := acc.SignTx(bc.GetConfig().Magic, tx); err != nil {
						panic(err)
					}
					e.AddNewBlock(t, tx)
					lowered = true
					return
				}
				w := io.NewBufBinWriter()
				var to util.Uint160
				to[0], to[19] = 0xC1, byte(oi)
				emit.AppCall(w.BinWriter, e.NativeHash(t, "GasToken"), "transfer", callflag.All, acc.ScriptHash(), to, int64(1+oi), nil)
				emit.Opcodes(w.BinWriter, opcode.ASSERT)
				tx := e.PrepareInvocationNoSign(t, w.Bytes())
				tx.Signers = []transaction.Signer{{Account: acc.ScriptHash(), Scopes: transaction.Global}}
				neotest.AddNetworkFee(t, bc, tx, acc)
				v, _ := e.TestInvoke(tx)
				tx.SystemFee = v.GasConsumed() + 1_0000_0000
				if err := acc.SignTx(bc.GetConfig().Magic, tx); err != nil {
					panic(err)
				}
				e.AddNewBlock(t, tx)
			}); p != "" {
				viol(fmt.Sprintf("block rejected: %s [op %d]", p, oi), nil)
			}
			if !failed {
				noteMTB()
			}
		case "p":
			flushed = true
			oldPersisted = bc.VerifPersistedHeight()
			if _, err := bc.VerifPersist(); err != nil {
				viol("flush failed: "+err.Error(), nil)
			}
		case "g":
			p := bc.VerifPersistedHeight()
			H := bc.BlockHeight()
			if H > p {
				cached = true
			}
			before, _ := c11Dump(bottom, true)
			if pp := catch(func() { bc.VerifTryRunGC(oldPersisted) }); pp != "" {
				viol("tryRunGC panics: "+pp, nil)
				break
			}
			after, _ := c11Dump(bottom, true)
			if len(after) < len(before) {
				collected = true
			}
			// the running node is entitled to the window length in force at the current height; the collection works on
			// the persistent store and has to respect the length in force on the PERSISTED chain, which is what a node
			// restarted from that store promises (the two differ only when a block that lowers MaxTraceableBlocks is
			// still in the write cache: F61)
			mtbH, mtbP := mtbAt[H], mtbAt[p]
			if mtbH < mtbP {
				loweredInCache = true
			}
			runs = append(runs, fmt.Sprintf("(%d, %d, %d, %s, %s)", p, oldPersisted, mtbP, c11CoqDump(ids, before), c11CoqDump(ids, after)))
			oldPersisted = p // the next tick of Run reads the persisted height again before its own flush
			// the running node: every traceable state readable
			sm := bc.GetStateModule()
			lo := uint32(0)
			if H+1 > mtbH {
				lo = H + 1 - mtbH
			}
			for h := lo; h <= H && !failed; h++ {
				sr, err := sm.GetStateRoot(h)
				if err != nil {
					viol(fmt.Sprintf("running node: no state root for traceable height %d (current %d)", h, H), map[string]any{"height": h})
					break
				}
				kvs, err := sm.FindStates(sr.Root, []byte{}, nil, 1<<20)
				if err != nil {
					viol("the running node cannot read a state that is traceable for it after the garbage collection",
						map[string]any{"height": h, "current": H, "persisted": p, "mtb": mtbH, "echidna": in.Echidna, "error": err.Error()})
					break
				}
				for i := 0; i < len(kvs) && i < 40; i += 13 {
					v, e1 := sm.GetState(sr.Root, kvs[i].Key)
					proof, e2 := sm.GetStateProof(sr.Root, kvs[i].Key)
					ok := false
					var pv []byte
					if e2 == nil {
						pv, ok = mpt.VerifyProof(sr.Root, kvs[i].Key, proof)
					}
					if e1 != nil || e2 != nil || !ok || string(v) != string(kvs[i].Value) || string(pv) != string(kvs[i].Value) {
						viol("a key of a traceable state cannot be read or proved on the running node after the garbage collection",
							map[string]any{"height": h, "key": hx(kvs[i].Key), "get_error": fmt.Sprint(e1), "proof_error": fmt.Sprint(e2)})
						break
					}
				}
			}
			if failed || !flushed {
				// nothing was ever flushed: the persistent store is empty and a restarted node begins with its own genesis
				break
			}
			// the crash: a second node on a copy of the persistent store alone
			disk := c11CopyStore(bottom)
			t2 := &c11T{}
			var bc2 *core.Blockchain
			if pp := catch(func() {
				bc2, _ = chain.NewSingleWithOptions(t2, &chain.Options{Logger: zap.NewNop(), Store: disk, SkipRun: true, BlockchainConfigHook: c11ChainCfgIn(in)})
			}); pp != "" {
				viol("the node does not start on the persistent store as a crash after the garbage collection would leave it: "+pp,
					map[string]any{"persisted": p, "current": H})
				break
			}
			if bc2.BlockHeight() != p {
				viol(fmt.Sprintf("the recovered node is at height %d, the persisted height was %d", bc2.BlockHeight(), p), nil)
			}
			d, _ := c11Dump(disk, true)
			lo = 0
			if p+1 > mtbP {
				lo = p + 1 - mtbP
			}
			for h := lo; h <= p && !failed; h++ {
				sr, err := bc2.GetStateModule().GetStateRoot(h)
				if err != nil {
					viol("recovered node: no state root for a height traceable for it", map[string]any{"height": h, "persisted": p})
					break
				}
				if w := c11WalkRoot(d, sr.Root, false); w.problem != "" {
					note := "after a crash the recovered node cannot read a state that is traceable for it: the garbage collector removed a node it needs"
					if mtbH < mtbP && h+mtbH <= p {
						// its own class (F61): only the part of the tail that the not yet persisted lowering cuts off
						note = "lowered MaxTraceableBlocks used before the lowering block is persisted: after a crash the recovered node cannot read a state its own window still promises"
					}
					viol(note, map[string]any{"class_f61": mtbH < mtbP && h+mtbH <= p, "height": h, "persisted": p, "height_in_memory_at_gc": H, "mtb_at_persisted": mtbP, "mtb_at_current": mtbH, "echidna": in.Echidna, "problem": w.problem})
				}
			}
			// Reset on the recovered (non-running) node, where the node allows it (chain shorter than MaxTraceableBlocks):
			// afterwards contract storage must be exactly what the state root of the target height commits to
			if !failed && p >= 2 && p < mtbP && !lowered {
				target := p - 1
				var rerr error
				if pp := catch(func() { rerr = bc2.Reset(target) }); pp != "" || rerr != nil {
					viol("Reset on the recovered node fails: "+pp+fmt.Sprint(rerr), map[string]any{"persisted": p, "target": target})
				} else if sr, err := bc2.GetStateModule().GetStateRoot(target); err != nil {
					viol("after Reset there is no state root for the target height", map[string]any{"target": target})
				} else {
					d2, _ := c11Dump(disk, true)
					w := c11WalkRoot(d2, sr.Root, false)
					// Reset moves contract storage to the other storage prefix: read it through the node
					stor := map[string][]byte{}
					idset := map[int32]bool{}
					for k := range w.content {
						if len(k) >= 4 {
							idset[int32(binary.LittleEndian.Uint32([]byte(k[:4])))] = true
						}
					}
					for i := int32(-20); i <= 20; i++ {
						idset[i] = true
					}
					for id := range idset {
						pre := make([]byte, 4)
						binary.LittleEndian.PutUint32(pre, uint32(id))
						bc2.SeekStorage(id, []byte{}, func(k, v []byte) bool {
							stor[string(pre)+string(k)] = append([]byte{}, v...)
							return true
						})
					}
					if w.problem != "" || !c11EqContent(w.content, stor) {
						viol("after Reset contract storage is not what the state root of the target height commits to",
							map[string]any{"persisted": p, "target": target, "trie_pairs": len(w.content), "storage_pairs": len(stor), "problem": w.problem})
					}
				}
			}
			t2.done()
		}
	}
	tag := fmt.Sprintf("mtb%d/gcp%d", in.MTB, in.gcp())
	if in.Echidna > 0 {
		tag += "+echidna"
	}
	if in.gmtb() != in.MTB {
		tag += "+window-shrinks-at-echidna"
	}
	if lowered {
		tag += "+lowered"
	}
	if loweredInCache {
		tag += "+lowering-in-cache-at-gc"
	}
	if cached {
		tag += "+blocks-in-cache-at-gc"
	}
	if collected {
		tag += "+collected"
	}
	co.add(kind, tag, cached && collected, in, map[string]any{"height": bc.BlockHeight(), "gc_runs": len(runs), "lowering_block_in_cache_at_gc": loweredInCache},
		fmt.Sprintf("CGcRuns %d %s", in.gcp(), coqList(runs)))
}

func c11GenGC(r *rng) c11GCInput {
	switch r.intn(5) {
	case 0, 1:
		// the hard-fork boundary: MaxTraceableBlocks comes from the configuration before Echidna and from the Policy
		// contract from Echidna on; a real GC tick at EVERY height around E, the one at E-1 crossing a period boundary
		in := c11GCInput{MTB: uint32(2 + r.intn(3)), GCP: uint32(1 + r.intn(4))}
		k := 2 + r.intn(3)
		for uint32(k)*in.GCP+1 < in.MTB+3 {
			k++
		}
		in.Echidna = uint32(k)*in.GCP + 1
		if in.MTB >= 3 && r.chance(50) {
			// the Policy contract is initialised with a SHORTER window than the configuration holds: the window
			// length changes exactly at E
			in.GMTB = in.MTB - 1
		}
		for h := uint32(1); h <= in.Echidna+2+uint32(r.intn(3)); h++ {
			in.Ops = append(in.Ops, pick(r, []string{"b", "t", "t"}))
			if h+4 >= in.Echidna || r.chance(40) {
				if r.chance(85) {
					in.Ops = append(in.Ops, "p")
				}
				in.Ops = append(in.Ops, "g")
			}
		}
		return in
	case 2:
		// the committee lowers MaxTraceableBlocks (it can only be lowered) after Echidna, GC ticks around it
		in := c11GCInput{MTB: uint32(4 + r.intn(3)), GCP: uint32(1 + r.intn(2)), Echidna: uint32(r.intn(4))}
		for h := 1; h <= int(in.MTB)+6+r.intn(4); h++ {
			op := pick(r, []string{"b", "t", "t"})
			if h > int(in.MTB)+1 && r.chance(30) {
				op = "s"
			}
			if op == "s" && h > int(in.MTB)+2 && r.chance(50) {
				// the lowering block is accepted between the flush and the collection of one tick of Run: the
				// collector sees the lowered value, the persistent store does not hold the lowering block yet
				in.Ops = append(in.Ops, "t", "p", "s", "g")
				h++
				continue
			}
			in.Ops = append(in.Ops, op)
			if h > int(in.MTB) {
				in.Ops = append(in.Ops, "p", "g")
			}
		}
		return in
	}
	in := c11GCInput{MTB: uint32(2 + r.intn(4))}
	blk := func(n int) {
		for i := 0; i < n; i++ {
			if r.chance(35) {
				in.Ops = append(in.Ops, "t")
			} else {
				in.Ops = append(in.Ops, "b")
			}
		}
	}
	if r.chance(20) {
		// a chain younger than MaxTraceableBlocks: the only situation in which Reset is allowed with RemoveUntraceableBlocks
		in.MTB = uint32(4 + r.intn(3))
		blk(2 + r.intn(int(in.MTB)-3))
		in.Ops = append(in.Ops, "p")
		blk(r.intn(2))
		in.Ops = append(in.Ops, "g")
		return in
	}
	blk(int(in.MTB) + 2 + r.intn(3))
	for c, n := 0, 1+r.intn(3); c < n; c++ {
		in.Ops = append(in.Ops, "p")
		blk(r.intn(int(in.MTB) + 3)) // blocks that stay in the write cache
		in.Ops = append(in.Ops, "g")
		blk(r.intn(3))
	}
	return in
}

func runC11GC(args []string) error {
	cf, fs := parseCommon("c11gc", args)
	fs.Parse(args)
	co := newCaseOut(cf.out, "Harness.C11", "Z",
		"neotest chains with RemoveUntraceableBlocks, MaxTraceableBlocks 2-6; (a) GC period 1, all hard forks from genesis: MTB+2..MTB+4 blocks, then 1-3 rounds of flush / 0..MTB+2 blocks kept in the "+
			"write cache / GC half of a Run tick / crash-recovery on a copy of the persistent store; (b) Echidna (MaxTraceableBlocks from the Policy contract) at E = k*period+1, period 1-4, a GC tick at every height from E-4 to E+2..4; "+
			"(c) the committee lowering MaxTraceableBlocks after Echidna with a tick after every block; every block changes the trie (GAS rewards, transfers); "+
			"non-trivial when blocks were in the write cache at a GC that removed entries; distinct by Coq term")
	co.shard = 12
	if cf.replay != "" {
		cases, err := readReplay(cf.replay)
		if err != nil {
			return err
		}
		for _, c := range cases {
			var x struct {
				Kind  string     `json:"kind"`
				Input c11GCInput `json:"input"`
			}
			if err := json.Unmarshal(c, &x); err != nil {
				return err
			}
			c11RunGC(co, x.Input)
		}
		return co.finish()
	}
	r := newRng(cf.seed)
	for i := 0; i < cf.n; i++ {
		c11RunGC(co, c11GenGC(r))
	}
	return co.finish()
}
