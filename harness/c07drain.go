package main

// C07, kind "drain": multi-block pack histories in which blocks MOVE GAS. Three payers each have several pooled
// transactions that are affordable together; some payers also have a "drain" - the most prioritised transaction of
// the pool, which transfers most of the payer's GAS away (paid by the payer itself, or paid by ANOTHER payer and only
// co-signed by the drained one), or whose GAS goes to another payer (whose balance rises). MaxTransactionsPerBlock is
// 1-3, so a block takes only some of them. After every block the pool's refresh has to re-book what is left against
// the balances the block left: the amounts are chosen so that exactly the first J remaining transactions of a drained
// payer still fit (J = 0..n, the balance being the sum of their fees -1 / +0 / +1 / + a random bit). Then:
//   pool -> pack k -> block (replica first, as bytes) -> refresh -> [a probe submission at the edge of what the
//   payer can still afford] -> pack again ...
// Checked directly: every packed block is accepted by the replica and the node; after every block every payer's pooled
// fees are covered by its fresh balance and no pooled transaction is one the block took; the probe is admitted exactly
// when it fits. In Coq (CRefreshBal): the pool after the block is what the model's RemoveStale keeps for the fresh
// balances, and the solvency premise on it; every pack also gives a CPack case as in kind "pack".

import (
	"fmt"
	"strings"

	"github.com/nspcc-dev/neo-go/pkg/core/fee"
	"github.com/nspcc-dev/neo-go/pkg/core/transaction"
	"github.com/nspcc-dev/neo-go/pkg/io"
	"github.com/nspcc-dev/neo-go/pkg/neotest"
	"github.com/nspcc-dev/neo-go/pkg/smartcontract/callflag"
	"github.com/nspcc-dev/neo-go/pkg/util"
	"github.com/nspcc-dev/neo-go/pkg/vm/emit"
	"github.com/nspcc-dev/neo-go/pkg/vm/opcode"
)

type c07DrainPayer struct {
	Mode  int   `json:"mode"`            // 0 no drain; 1 drains itself; 2 drained by a transaction the NEXT payer sends and pays for; 3 as 1, the GAS goes to the next payer
	J     int   `json:"j"`               // after the drain the balance covers the first J plain transactions ...
	Delta int64 `json:"delta"`           // ... plus this many Datoshi (may be -1)
	Multi bool  `json:"multi,omitempty"` // a 2-of-3 account
}

type c07DrainIn struct {
	Seed   uint64          `json:"seed"`
	Cfg    c07Cfg          `json:"cfg"`
	Rounds int             `json:"rounds"`
	NPlain int             `json:"nplain"`
	Payers []c07DrainPayer `json:"payers"`
	Probe  int             `json:"probe"` // after which block a probe submission is made (-1: none); ProbeD: 0 = exactly what is left, 1 = one Datoshi more
	ProbeD int64           `json:"probed"`
}

func c07GenDrain(r *rng) c07DrainIn {
	in := c07DrainIn{Seed: r.next(), Rounds: 3 + r.intn(3), NPlain: 2 + r.intn(3), Probe: -1}
	in.Cfg.MaxTx = uint16(1 + r.intn(3))
	in.Cfg.SRH = r.chance(30)
	some := false
	for p := 0; p < 3; p++ {
		d := c07DrainPayer{Mode: pick(r, []int{0, 1, 1, 2, 2, 3}), J: r.intn(in.NPlain + 1), Multi: p == 2 && r.chance(40)}
		d.Delta = pick(r, []int64{-1, 0, 0, 1, int64(r.intn(200_0000))})
		if d.J == 0 && d.Delta < 0 {
			d.Delta = 0
		}
		some = some || d.Mode != 0
		in.Payers = append(in.Payers, d)
	}
	if !some {
		in.Payers[r.intn(3)].Mode = 1 + r.intn(2)
	}
	if r.chance(60) {
		in.Probe = r.intn(2)
		in.ProbeD = int64(r.intn(2))
	}
	return in
}

func c07TransferScript(gas, from, to util.Uint160, amount int64) []byte {
	w := io.NewBufBinWriter()
	emit.AppCall(w.BinWriter, gas, "transfer", callflag.All, from, to, amount, nil)
	emit.Opcodes(w.BinWriter, opcode.ASSERT)
	return w.Bytes()
}

func c07RunDrain(co *caseOut, in c07DrainIn) {
	r := newRng(in.Seed)
	c := c07NewChain(in.Cfg)
	defer c.close()
	np := len(in.Payers)
	if np == 0 || np > 4 || in.NPlain < 1 || in.NPlain > 6 {
		panic(c07Fail{"drain: 1-4 payers with 1-6 plain transactions each"})
	}
	var accts []*c07Acct
	for _, d := range in.Payers {
		if d.Multi {
			accts = append(accts, c07MakeAcct(r, 2, 3))
		} else {
			accts = append(accts, c07MakeAcct(r, 0, 0))
		}
	}
	sink := c07MakeAcct(r, 0, 0)
	fpb := c.bc.FeePerByte()
	h0 := c.bc.BlockHeight() + 1 // after the funding block
	vub := h0 + 30
	fees := func(tx *transaction.Transaction) int64 { return tx.SystemFee + tx.NetworkFee }
	// plain transactions: priority falls with the index (and differs between payers)
	plain := make([][]*transaction.Transaction, np)
	for p := range accts {
		for i := 0; i < in.NPlain; i++ {
			extra := int64(in.NPlain-i)*40_0000 + int64(p)*7_0000 + int64(r.intn(5))*1_0000
			tx, _ := c.build(c07TxSpec{signers: []*c07Acct{accts[p]}, script: c07PushOne, sysfee: int64(1+r.intn(3)) * 100_0000, vub: vub,
				netfee: func(size int, calc int64) int64 { return int64(size)*fpb + calc + extra }})
			plain[p] = append(plain[p], tx)
		}
	}
	// who pays for the drain of p, and where the GAS goes
	payerOf := func(p int) int {
		if in.Payers[p].Mode == 2 {
			return (p + 1) % np
		}
		return p
	}
	// the amounts depend on the fees of the drains, the drains (their size) on the amounts: the amount is an 8-byte
	// integer either way (>= 2^32 Datoshi), so a first build with a placeholder gives the final fees
	const slack = 100_0000_0000
	drains := make([]*transaction.Transaction, np)
	mkDrain := func(p int, amount int64) *transaction.Transaction {
		to := sink.hash()
		if in.Payers[p].Mode == 3 {
			to = accts[(p+1)%np].hash()
		}
		sg := []*c07Acct{accts[payerOf(p)]}
		if payerOf(p) != p {
			sg = append(sg, accts[p])
		}
		extra := int64(5000_0000 + p*100_0000)
		tx, _ := c.build(c07TxSpec{signers: sg, script: c07TransferScript(c.gas, accts[p].hash(), to, amount), sysfee: 2000_0000, vub: vub,
			scope: transaction.CalledByEntry, netfee: func(size int, calc int64) int64 { return int64(size)*fpb + calc + extra }})
		return tx
	}
	for p := range accts {
		if in.Payers[p].Mode != 0 {
			drains[p] = mkDrain(p, slack)
		}
	}
	balance := make([]int64, np)
	amount := make([]int64, np)
	for p := range accts {
		var total, drainFees int64
		for _, tx := range plain[p] {
			total += fees(tx)
		}
		for q := range accts {
			if drains[q] != nil && payerOf(q) == p {
				drainFees += fees(drains[q])
			}
		}
		balance[p] = total + drainFees + slack
		if in.Payers[p].Mode != 0 {
			var keep int64
			for i := 0; i < in.Payers[p].J && i < len(plain[p]); i++ {
				keep += fees(plain[p][i])
			}
			keep += in.Payers[p].Delta
			if keep < 0 {
				keep = 0
			}
			amount[p] = balance[p] - drainFees - keep
		}
	}
	for p := range accts {
		if drains[p] != nil {
			d := mkDrain(p, amount[p])
			if fees(d) != fees(drains[p]) {
				panic(c07Fail{"drain: the fees of a drain changed with its amount"})
			}
			drains[p] = d
		}
	}
	var funding []*transaction.Transaction
	for p, a := range accts {
		funding = append(funding, c.e.NewTx(c.t, []neotest.Signer{c.val}, c.gas, "transfer", c.val.ScriptHash(), a.hash(), balance[p], nil))
	}
	c.addBlock(funding...)
	for p := range accts {
		for _, tx := range plain[p] {
			if err := c.bc.PoolTx(tx); err != nil {
				panic(c07Fail{"drain: a plain transaction was refused: " + err.Error()})
			}
		}
	}
	for p := range accts {
		if drains[p] != nil {
			if err := c.bc.PoolTx(drains[p]); err != nil {
				panic(c07Fail{"drain: a drain was refused: " + err.Error()})
			}
		}
	}
	c.notePool()
	mp := c.bc.GetMemPool()
	acctNo := map[util.Uint160]int{}
	for p, a := range accts {
		acctNo[a.hash()] = 2 + p
	}
	for round := 0; round < in.Rounds; round++ {
		before := mp.GetVerifiedTransactions()
		if len(before) == 0 {
			break
		}
		sel, ok := c07PackOnce(co, c, "drain", in, round, false, 0, in.Cfg.SRH)
		if !ok {
			return
		}
		after := mp.GetVerifiedTransactions()
		// ---- the refresh ----
		pos := map[util.Uint256]int{}
		for i, tx := range before {
			pos[tx.Hash()] = i
		}
		var recs []string
		for i, tx := range before {
			var sg []int
			for _, sn := range tx.Signers {
				sg = append(sg, acctNo[sn.Account])
			}
			recs = append(recs, fmt.Sprintf("mkTx %d %s %d %d %d false [] None", i, c08Ints(sg), tx.SystemFee, tx.NetworkFee, tx.Size()))
		}
		var blk, aft []int
		inBlock := map[util.Uint256]bool{}
		for _, tx := range sel {
			blk = append(blk, pos[tx.Hash()])
			inBlock[tx.Hash()] = true
		}
		var bals []string
		fresh := map[util.Uint160]int64{}
		for p, a := range accts {
			b := c.bc.GetUtilityTokenBalance(a.hash(), util.Uint160{}).Int64()
			fresh[a.hash()] = b
			bals = append(bals, fmt.Sprintf("((%d,0),%d)", 2+p, b))
		}
		note := ""
		sums := map[util.Uint160]int64{}
		lastPos := -1
		for _, tx := range after {
			i, known := pos[tx.Hash()]
			switch {
			case !known:
				note = "after the block the pool lists a transaction that was not pooled before it"
			case inBlock[tx.Hash()]:
				note = "after the block the pool still lists a transaction the block contains"
			case i < lastPos:
				note = "after the block the pool order changed"
			}
			lastPos = i
			aft = append(aft, i)
			sums[tx.Sender()] += fees(tx)
		}
		if note == "" {
			for p, a := range accts {
				if sums[a.hash()] > fresh[a.hash()] {
					note = fmt.Sprintf("the refresh after a block kept transactions their payer can no longer pay for: after block %d (it took %v of the pool) payer %d has %d Datoshi of GAS left and %d Datoshi of fees pooled",
						c.bc.BlockHeight(), blk, p, fresh[a.hash()], sums[a.hash()])
					break
				}
			}
		}
		impl := map[string]any{"round": round, "height": c.bc.BlockHeight(), "before": len(before), "block": blk, "after": aft, "balances": bals}
		tag := fmt.Sprintf("refresh/kept%d-of-%d", len(after), len(before)-len(sel))
		if len(after) < len(before)-len(sel) {
			tag = "refresh/evicted"
		}
		if note != "" {
			impl["diag"] = note
			tag = "violation"
		}
		co.add("drain", tag, len(after) < len(before)-len(sel), in, impl,
			fmt.Sprintf("CRefreshBal [%s] %s [%s] %d %s", strings.Join(recs, ";"), c08Ints(blk), strings.Join(bals, ";"), fpb, c08Ints(aft)))
		if note != "" {
			co.violation("drain", note, in, impl)
			return
		}
		// ---- a submission at the edge of what a drained payer can still afford ----
		if round == in.Probe {
			p := int(in.Seed % uint64(np))
			for k := 0; k < np; k++ {
				if in.Payers[(p+k)%np].Mode != 0 {
					p = (p + k) % np
					break
				}
			}
			left := fresh[accts[p].hash()] - sums[accts[p].hash()]
			minTx, _ := c.build(c07TxSpec{signers: []*c07Acct{accts[p]}, script: c07PushOne, sysfee: 0, vub: vub,
				netfee: func(size int, calc int64) int64 { return int64(size)*fpb + calc }})
			want := left + in.ProbeD
			if want < fees(minTx) {
				want = fees(minTx)
			}
			tx, _ := c.build(c07TxSpec{signers: []*c07Acct{accts[p]}, script: c07PushOne, sysfee: 0, vub: vub,
				netfee: func(size int, calc int64) int64 { return want }})
			err := c.bc.PoolTx(tx)
			_, cls := c07Class(err)
			fits := fees(tx) <= left
			pimpl := map[string]any{"round": round, "payer": p, "left": left, "fee": fees(tx), "class": cls}
			if fits != (err == nil) {
				msg := fmt.Sprintf("a submission after a block is judged against a stale balance: after block %d payer %d has %d Datoshi not committed to pooled transactions; a submission with %d Datoshi of fees was ", c.bc.BlockHeight(), p, left, fees(tx))
				if err == nil {
					msg += "admitted"
				} else {
					msg += "refused: " + err.Error()
				}
				co.violation("drain", msg, in, pimpl)
				return
			}
			if c.poolNote == "" {
				c.notePool()
				if c.poolNote != "" {
					co.violation("drain", "after the probe submission: "+c.poolNote, in, pimpl)
					return
				}
			}
		}
	}
}

// ---------- the calculator as a value, at governed factors ----------

// c07OwnCalc: the threshold of one standard witness from the closed forms proved in Coq (C07_calc_sig_closed,
// C07_calc_multisig_closed, tied to the NeoVM model's consumption by C07_fee_exact_*_on_vm_model): the price
// coefficients summed, times the factor in picoGAS, rounded up to Datoshi ONCE. Never fee.Calculate.
func c07OwnCalc(base int64, m, n int) int64 {
	k := int64(16 + 32768)
	if m != 0 {
		k = int64(8*m + 8*n + 2 + 32768*n)
	}
	return (base*k + 9999) / 10000
}

type c07FeeValIn struct {
	Seed   uint64   `json:"seed"`
	Base   int64    `json:"base"`
	Shapes [][2]int `json:"shapes"`
}

// c07RunFeeVal: fee.Calculate on the real verification scripts of the shapes, at the given factor, as values.
func c07RunFeeVal(co *caseOut, in c07FeeValIn) {
	r := newRng(in.Seed)
	for _, sh := range in.Shapes {
		a := c07MakeAcct(r, sh[0], sh[1])
		cf, _ := fee.Calculate(in.Base, a.signer.Script())
		own := c07OwnCalc(in.Base, sh[0], sh[1])
		one := c07FeeValIn{Seed: in.Seed, Base: in.Base, Shapes: [][2]int{sh}}
		impl := map[string]any{"calc_fee": cf, "closed_form": own}
		frac := "whole"
		if in.Base%10000 != 0 {
			frac = "fractional"
		}
		co.add("feevalue", fmt.Sprintf("%s/%d-of-%d", frac, sh[0], sh[1]), in.Base%10000 != 0, one, impl,
			fmt.Sprintf("CFeeValue %d %s %d", in.Base, a.coqShape(), cf))
		if cf != own {
			co.violation("feevalue", fmt.Sprintf("fee.Calculate at the execution fee factor %d picoGAS gives %d Datoshi for a %d-of-%d witness; running it costs %d (the price coefficients summed in picoGAS and rounded up once)",
				in.Base, cf, sh[0], sh[1], own), one, impl)
		}
	}
}
