package main

// C07 — transaction admission is sound, fee-exact and yields proposable blocks.
// A neotest chain (single validator, memory store) and a replica with the same configuration that
// receives every block as bytes (EncodeBinary -> DecodeBinary -> AddBlock). Case kinds:
//   shape     fee.Calculate vs Blockchain.VerifyWitness gas vs the model, per signer shape
//   boundary  VerifyTx at the calculated network fee + delta (delta = -1, 0, +1), one or several signers
//   admit     transactions valid or invalid in chosen respects against a private pool: error class
//   pack      pool -> ApplyPolicyToTxSet -> block -> bytes -> replica; limits evaluated directly

import (
	"bytes"
	"encoding/json"
	"errors"
	"fmt"
	"os"
	"path/filepath"
	"sort"
	"strings"
	"testing"

	"github.com/nspcc-dev/neo-go/pkg/config"
	"github.com/nspcc-dev/neo-go/pkg/core"
	"github.com/nspcc-dev/neo-go/pkg/core/block"
	"github.com/nspcc-dev/neo-go/pkg/core/fee"
	"github.com/nspcc-dev/neo-go/pkg/core/mempool"
	"github.com/nspcc-dev/neo-go/pkg/core/native/nativenames"
	"github.com/nspcc-dev/neo-go/pkg/core/transaction"
	"github.com/nspcc-dev/neo-go/pkg/crypto/keys"
	"github.com/nspcc-dev/neo-go/pkg/io"
	"github.com/nspcc-dev/neo-go/pkg/neotest"
	"github.com/nspcc-dev/neo-go/pkg/neotest/chain"
	"github.com/nspcc-dev/neo-go/pkg/smartcontract"
	"github.com/nspcc-dev/neo-go/pkg/smartcontract/scparser"
	"github.com/nspcc-dev/neo-go/pkg/util"
	"github.com/nspcc-dev/neo-go/pkg/vm"
	"github.com/nspcc-dev/neo-go/pkg/vm/opcode"
	"github.com/nspcc-dev/neo-go/pkg/wallet"
	"go.uber.org/zap"
)

func init() { register("c07", runC07) }

// ---------- testing.TB outside `go test` ----------

type c07Fail struct{ msg string }

type c07T struct {
	testing.TB
	cleanups []func()
}

func (t *c07T) Helper()                   {}
func (t *c07T) Name() string              { return "nghx-c07" }
func (t *c07T) Logf(string, ...any)       {}
func (t *c07T) Log(...any)                {}
func (t *c07T) Errorf(f string, a ...any) { panic(c07Fail{fmt.Sprintf(f, a...)}) }
func (t *c07T) Fatalf(f string, a ...any) { panic(c07Fail{fmt.Sprintf(f, a...)}) }
func (t *c07T) Fatal(a ...any)            { panic(c07Fail{fmt.Sprint(a...)}) }
func (t *c07T) Error(a ...any)            { panic(c07Fail{fmt.Sprint(a...)}) }
func (t *c07T) FailNow()                  { panic(c07Fail{"FailNow"}) }
func (t *c07T) Fail()                     { panic(c07Fail{"Fail"}) }
func (t *c07T) Failed() bool              { return false }
func (t *c07T) Cleanup(f func())          { t.cleanups = append(t.cleanups, f) }
func (t *c07T) done() {
	for i := len(t.cleanups) - 1; i >= 0; i-- {
		t.cleanups[i]()
	}
	t.cleanups = nil
}

// ---------- chain + replica ----------

type c07Cfg struct {
	MaxTx     uint16 `json:"maxtx,omitempty"`
	MaxSize   uint32 `json:"maxsize,omitempty"`
	MaxSysFee int64  `json:"maxsysfee,omitempty"`
	SRH       bool   `json:"srh,omitempty"` // StateRootInHeader
	MTB       uint32 `json:"mtb,omitempty"` // MaxTraceableBlocks (and MaxValidUntilBlockIncrement = MTB/2)
	noReplica bool
}

type c07Chain struct {
	t       *c07T
	cfg     c07Cfg
	bc      *core.Blockchain
	replica *core.Blockchain
	e       *neotest.Executor
	val     neotest.Signer
	gas     util.Uint160
	policy  util.Uint160
	nonce   uint32
	// first failure of the pool premise seen after a PoolTx (pack kind)
	poolNote string
	// base execution fee known by construction (the Policy value the harness set); 0 = ask the node
	baseOverride int64
}

func c07NewChain(cfg c07Cfg) *c07Chain {
	t := &c07T{}
	hook := func(c *config.Blockchain) {
		if cfg.MaxTx != 0 {
			c.MaxTransactionsPerBlock = cfg.MaxTx
		}
		if cfg.MaxSize != 0 {
			c.MaxBlockSize = cfg.MaxSize
		}
		if cfg.MaxSysFee != 0 {
			c.MaxBlockSystemFee = cfg.MaxSysFee
		}
		c.StateRootInHeader = cfg.SRH
		if cfg.MTB != 0 {
			c.MaxTraceableBlocks = cfg.MTB
			c.MaxValidUntilBlockIncrement = max(cfg.MTB/2, 1)
		}
	}
	bc, val := chain.NewSingleWithOptions(t, &chain.Options{Logger: zap.NewNop(), BlockchainConfigHook: hook})
	e := neotest.NewExecutor(t, bc, val, val)
	var rep *core.Blockchain
	if !cfg.noReplica {
		rep, _ = chain.NewSingleWithOptions(t, &chain.Options{Logger: zap.NewNop(), BlockchainConfigHook: hook})
	}
	return &c07Chain{t: t, cfg: cfg, bc: bc, replica: rep, e: e, val: val,
		gas: e.NativeHash(t, nativenames.Gas), policy: e.NativeHash(t, nativenames.Policy), nonce: 1 << 20}
}

func (c *c07Chain) close() { c.t.done() }

// relay hands the block to the replica the way a peer receives it: as bytes.
func (c *c07Chain) relay(b *block.Block) error {
	if c.replica == nil {
		return nil
	}
	w := io.NewBufBinWriter()
	b.EncodeBinary(w.BinWriter)
	if w.Err != nil {
		return w.Err
	}
	nb := block.New(c.cfg.SRH)
	r := io.NewBinReaderFromBuf(w.Bytes())
	nb.DecodeBinary(r)
	if r.Err != nil {
		return fmt.Errorf("decode: %w", r.Err)
	}
	return c.replica.AddBlock(nb)
}

// addBlock makes a block of txs on the primary and relays it; both must accept (set-up blocks).
func (c *c07Chain) addBlock(txs ...*transaction.Transaction) *block.Block {
	b := c.e.NewUnsignedBlock(c.t, txs...)
	c.e.SignBlock(b)
	if err := c.bc.AddBlock(b); err != nil {
		panic(c07Fail{"set-up block refused by the primary: " + err.Error()})
	}
	if err := c.relay(b); err != nil {
		panic(c07Fail{"set-up block refused by the replica: " + err.Error()})
	}
	return b
}

// ---------- accounts ----------

type c07Acct struct {
	M, N   int // M = 0: single signature
	signer neotest.Signer
	accs   []*wallet.Account
}

func c07Key(r *rng) *keys.PrivateKey {
	for {
		k, err := keys.NewPrivateKeyFromBytes(r.bytes(32))
		if err == nil {
			return k
		}
	}
}

func c07MakeAcct(r *rng, m, n int) *c07Acct {
	if m == 0 {
		acc := wallet.NewAccountFromPrivateKey(c07Key(r))
		return &c07Acct{signer: neotest.NewSingleSigner(acc), accs: []*wallet.Account{acc}}
	}
	privs := make([]*keys.PrivateKey, n)
	pubs := make(keys.PublicKeys, n)
	for i := range privs {
		privs[i] = c07Key(r)
		pubs[i] = privs[i].PublicKey()
	}
	accs := make([]*wallet.Account, n)
	for i := range accs {
		accs[i] = wallet.NewAccountFromPrivateKey(privs[i])
		if err := accs[i].ConvertMultisig(m, pubs.Copy()); err != nil {
			panic(err)
		}
	}
	return &c07Acct{M: m, N: n, signer: neotest.NewMultiSigner(accs...), accs: accs}
}

func (a *c07Acct) hash() util.Uint160 { return a.signer.ScriptHash() }
func (a *c07Acct) coqShape() string   { return fmt.Sprintf("(%d,%d)", a.M, a.N) }

// fund transfers GAS from the validator to the accounts, at most 30 transfers per block.
func (c *c07Chain) fund(amount int64, accts ...*c07Acct) {
	for i := 0; i < len(accts); i += 30 {
		var txs []*transaction.Transaction
		for _, a := range accts[i:min(i+30, len(accts))] {
			txs = append(txs, c.e.NewTx(c.t, []neotest.Signer{c.val}, c.gas, "transfer", c.val.ScriptHash(), a.hash(), amount, nil))
		}
		c.addBlock(txs...)
	}
}

// ---------- transactions ----------

type c07TxSpec struct {
	signers []*c07Acct
	script  []byte
	sysfee  int64
	vub     uint32
	attrs   []transaction.Attribute
	scope   transaction.WitnessScope
	// netfee as a function of (size, sum of fee.Calculate over signers)
	netfee func(size int, calc int64) int64
	// mutate the signed transaction's witnesses (bad signature, wrong script)
	mutate func(tx *transaction.Transaction)
}

// build signs the transaction twice: once to learn its size, then with the final network fee.
func (c *c07Chain) build(s c07TxSpec) (*transaction.Transaction, int64) {
	mk := func(nf int64, nonce uint32) *transaction.Transaction {
		tx := transaction.New(s.script, s.sysfee)
		tx.Nonce = nonce
		tx.ValidUntilBlock = s.vub
		tx.NetworkFee = nf
		tx.Attributes = s.attrs
		scope := s.scope
		if scope == 0 && len(s.attrs) == 0 {
			scope = transaction.CalledByEntry
		}
		for _, a := range s.signers {
			tx.Signers = append(tx.Signers, transaction.Signer{Account: a.hash(), Scopes: scope})
		}
		for _, a := range s.signers {
			if err := a.signer.SignTx(c.bc.GetConfig().Magic, tx); err != nil {
				panic(err)
			}
		}
		return tx
	}
	c.nonce++
	probe := mk(0, c.nonce)
	size := io.GetVarSize(probe)
	var calc int64
	base := c.bc.GetBaseExecFee()
	if c.baseOverride != 0 {
		base = c.baseOverride
	}
	for _, a := range s.signers {
		// the threshold of a standard witness from the closed form proved for the model, NOT from the calculator
		// under test (a calculator that is off would otherwise move the probes with it)
		calc += c07OwnCalc(base, a.M, a.N)
	}
	tx := mk(s.netfee(size, calc), c.nonce)
	if s.mutate != nil {
		s.mutate(tx)
	}
	return tx, calc
}

func c07Opcodes(script []byte) ([]int, error) {
	ctx := vm.NewContext(script)
	var ops []int
	for ctx.NextIP() < len(script) {
		op, _, err := ctx.Next()
		if err != nil {
			return nil, err
		}
		ops = append(ops, int(op))
	}
	return ops, nil
}

// ---------- error classes (must match class_of in Harness/C07.v) ----------

func c07Class(err error) (int, string) {
	switch {
	case err == nil:
		return -1, "ok"
	case errors.Is(err, core.ErrPolicy):
		return 0, "policy"
	case errors.Is(err, core.ErrInvalidScript):
		return 1, "script"
	case errors.Is(err, core.ErrTxExpired):
		return 2, "expired"
	case errors.Is(err, core.ErrTxNotYetValid):
		return 3, "notyet"
	case errors.Is(err, core.ErrTxTooBig):
		return 4, "toobig"
	case errors.Is(err, core.ErrTxSmallNetworkFee):
		return 5, "smallfee"
	case errors.Is(err, core.ErrAlreadyExists):
		return 6, "exists"
	case errors.Is(err, mempool.ErrConflictsAttribute):
		return 13, "pool-conflictsattr"
	case errors.Is(err, core.ErrHasConflicts):
		return 7, "conflicts"
	case errors.Is(err, core.ErrInvalidAttribute):
		return 9, "attr"
	case errors.Is(err, core.ErrAlreadyInPool):
		return 10, "pool-dup"
	case errors.Is(err, core.ErrInsufficientFunds):
		return 11, "pool-insufficient"
	case errors.Is(err, core.ErrMemPoolConflict):
		return 12, "pool-conflict"
	case errors.Is(err, mempool.ErrOracleResponse):
		return 14, "pool-oracle"
	case errors.Is(err, core.ErrOOM):
		return 15, "pool-oom"
	case errors.Is(err, core.ErrVerificationFailed), errors.Is(err, core.ErrInvalidSignature),
		errors.Is(err, core.ErrWitnessHashMismatch), errors.Is(err, core.ErrInvalidVerificationScript),
		errors.Is(err, core.ErrInvalidInvocationScript), errors.Is(err, core.ErrNativeContractWitness),
		errors.Is(err, core.ErrUnknownVerificationContract), errors.Is(err, core.ErrInvalidVerificationContract):
		return 8, "witness"
	}
	return 99, "unknown: " + err.Error()
}

var c07PushOne = []byte{byte(opcode.PUSH1)}

func c07Shapes(accts []*c07Acct) (string, [][2]int) {
	var ss []string
	var js [][2]int
	for _, a := range accts {
		ss = append(ss, a.coqShape())
		js = append(js, [2]int{a.M, a.N})
	}
	return "[" + strings.Join(ss, ";") + "]", js
}

// ---------- kinds: shape, boundary ----------

type c07ShapeIn struct {
	Kind   string   `json:"-"`
	Seed   uint64   `json:"seed"`
	Shapes [][2]int `json:"shapes"`
	Delta  int64    `json:"delta"`
	// the committee sets this execution fee factor (picoGAS) before the probe; 0 = the default 300000
	ExecFee int64 `json:"execfee,omitempty"`
}

func c07RunBoundary(co *caseOut, in c07ShapeIn) {
	r := newRng(in.Seed)
	c := c07NewChain(c07Cfg{noReplica: true})
	defer c.close()
	var accts []*c07Acct
	for _, s := range in.Shapes {
		accts = append(accts, c07MakeAcct(r, s[0], s[1]))
	}
	c.fund(1000_0000_0000, accts...)
	if in.ExecFee != 0 {
		ptx := c.e.CommitteeInvoker(c.policy).PrepareInvoke(c.t, "setExecFeeFactor", in.ExecFee)
		c.addBlock(ptx)
		c.e.CheckHalt(c.t, ptx.Hash())
		c.baseOverride = in.ExecFee
		if got := c.bc.GetBaseExecFee(); got != in.ExecFee {
			co.violation("boundary", fmt.Sprintf("the node reports base exec fee %d; the Policy contract was set to %d", got, in.ExecFee), in, nil)
			return
		}
	}
	base := c.bc.GetBaseExecFee()
	maxgas := c.bc.GetMaxVerificationGAS()
	fpb := c.bc.FeePerByte()
	// per shape: calculator vs VM
	if in.Delta == 0 {
		for _, a := range accts {
			tx, _ := c.build(c07TxSpec{signers: []*c07Acct{a}, script: c07PushOne, sysfee: 100_0000, vub: c.bc.BlockHeight() + 1,
				netfee: func(size int, calc int64) int64 { return int64(size)*fpb + calc }})
			cf, cs := fee.Calculate(base, a.signer.Script())
			w := tx.Scripts[0]
			gas, err := c.bc.VerifyWitness(a.hash(), tx, &w, maxgas)
			inv, e1 := c07Opcodes(w.InvocationScript)
			ver, e2 := c07Opcodes(w.VerificationScript)
			si := c07ShapeIn{Seed: in.Seed, Shapes: [][2]int{{a.M, a.N}}, ExecFee: in.ExecFee}
			impl := map[string]any{"calc_fee": cf, "calc_size": cs, "vm_gas": gas, "wit_size": io.GetVarSize(&w), "err": fmt.Sprint(err)}
			if err != nil || e1 != nil || e2 != nil {
				if cf <= maxgas {
					co.violation("shape", fmt.Sprintf("a standard %d-of-%d witness within the gas limit does not verify: %v %v %v", a.M, a.N, err, e1, e2), si, impl)
				}
				continue
			}
			// the witness as bytes, with the keys and signatures it was built from
			var keysB, sigsB [][]byte
			if a.M == 0 {
				keysB = [][]byte{w.VerificationScript[2:35]}
			} else if _, pubs, ok := scparser.ParseMultiSigContract(w.VerificationScript); ok {
				keysB = pubs
			}
			for o := 0; o+66 <= len(w.InvocationScript); o += 66 {
				sigsB = append(sigsB, w.InvocationScript[o+2:o+66])
			}
			bl := func(bs [][]byte) string {
				ss := make([]string, len(bs))
				for i, b := range bs {
					ss[i] = coqBytes(b)
				}
				return "[" + strings.Join(ss, ";") + "]"
			}
			co.add("script", fmt.Sprintf("%d-of-%d", a.M, a.N), a.M != 0, si,
				map[string]any{"ver": hx(w.VerificationScript), "inv_len": len(w.InvocationScript), "vm_gas": gas},
				fmt.Sprintf("CScript %d %d %s %s %s %s %d", base, a.M, bl(keysB), bl(sigsB), coqBytes(w.VerificationScript), coqBytes(w.InvocationScript), gas))
			co.add("shape", fmt.Sprintf("%d-of-%d", a.M, a.N), a.M != 0, si, impl,
				fmt.Sprintf("CShape %d %s %s %s %d %d %d %d %d", base, a.coqShape(), c08Ints(inv), c08Ints(ver),
					len(w.VerificationScript), cf, cs, gas, io.GetVarSize(&w)))
		}
	}
	// the boundary
	tx, calc := c.build(c07TxSpec{signers: accts, script: c07PushOne, sysfee: 100_0000, vub: c.bc.BlockHeight() + 1,
		netfee: func(size int, calc int64) int64 { return int64(size)*fpb + calc + in.Delta }})
	err := c.bc.VerifyTx(tx)
	_, cls := c07Class(err)
	shapes, _ := c07Shapes(accts)
	impl := map[string]any{"accepted": err == nil, "class": cls, "calc": calc, "size": tx.Size(), "netfee": tx.NetworkFee}
	tag := fmt.Sprintf("%dsigners/delta%+d", len(accts), in.Delta)
	if in.ExecFee != 0 {
		tag += "/governed"
		if in.ExecFee%10000 != 0 {
			tag += "-fractional"
		}
	}
	co.add("boundary", tag, true, in, impl,
		fmt.Sprintf("CBoundary %d %d %s %s %s", base, maxgas, shapes, coqZi(in.Delta), coqBool(err == nil)))
	within := true
	for _, a := range accts {
		within = within && c07OwnCalc(base, a.M, a.N) <= maxgas
	}
	if within && (err == nil) != (in.Delta >= 0) {
		co.violation("boundary", fmt.Sprintf("network fee = calculated fee %+d: accepted=%v (%s)", in.Delta, err == nil, cls), in, impl)
	}
}

// ---------- run ----------

type c07Case struct {
	Kind  string          `json:"kind"`
	Input json.RawMessage `json:"input"`
}

func c07Dispatch(co *caseOut, kind string, raw json.RawMessage) error {
	run := func(f func()) {
		defer func() {
			if p := recover(); p != nil {
				if cf, ok := p.(c07Fail); ok {
					co.violation(kind, "harness requirement failed: "+cf.msg, json.RawMessage(raw), nil)
					return
				}
				panic(p)
			}
		}()
		f()
	}
	switch kind {
	case "builder":
		var in c07ShapeIn
		if err := json.Unmarshal(raw, &in); err != nil {
			return err
		}
		run(func() {
			rr := newRng(in.Seed)
			m, n := in.Shapes[0][0], in.Shapes[0][1]
			pubs := make(keys.PublicKeys, n)
			for i := range pubs {
				pubs[i] = c07Key(rr).PublicKey()
			}
			script, err := smartcontract.CreateMultiSigRedeemScript(m, pubs)
			if err != nil {
				panic(c07Fail{err.Error()})
			}
			// the keys in the order the builder wrote them
			_, ordered, ok := scparser.ParseMultiSigContract(script)
			if !ok {
				co.violation("builder", fmt.Sprintf("the %d-of-%d script is not recognised as a multi-signature contract", m, n), in, hx(script))
				return
			}
			var kh strings.Builder
			for _, b := range ordered {
				kh.WriteString(hx(b))
			}
			co.add("builder", fmt.Sprintf("%d-of-%d", m, n), true, in, map[string]any{"len": len(script)},
				fmt.Sprintf("CBuilder %d %s %s", m, c07HexPieces(kh.String()), c07HexPieces(hx(script))))
		})
	case "shape", "boundary":
		var in c07ShapeIn
		if err := json.Unmarshal(raw, &in); err != nil {
			return err
		}
		run(func() { c07RunBoundary(co, in) })
	case "admit":
		var in c07AdmitIn
		if err := json.Unmarshal(raw, &in); err != nil {
			return err
		}
		run(func() { c07RunAdmit(co, in) })
	case "wstate":
		var in c07WsIn
		if err := json.Unmarshal(raw, &in); err != nil {
			return err
		}
		run(func() { c07RunWs(co, in) })
	case "chist":
		var in c07HistIn
		if err := json.Unmarshal(raw, &in); err != nil {
			return err
		}
		run(func() { c07RunHist(co, in) })
	case "pack":
		var in c07PackIn
		if err := json.Unmarshal(raw, &in); err != nil {
			return err
		}
		run(func() { c07RunPack(co, in) })
	case "drain":
		var in c07DrainIn
		if err := json.Unmarshal(raw, &in); err != nil {
			return err
		}
		run(func() { c07RunDrain(co, in) })
	case "attrs":
		var in c07AttrIn
		if err := json.Unmarshal(raw, &in); err != nil {
			return err
		}
		run(func() { c07RunAttrs(co, in) })
	case "feevalue":
		var in c07FeeValIn
		if err := json.Unmarshal(raw, &in); err != nil {
			return err
		}
		run(func() { c07RunFeeVal(co, in) })
	default:
		return fmt.Errorf("unknown kind %q", kind)
	}
	return nil
}

func runC07(args []string) error {
	cf, fs := parseCommon("c07", args)
	fs.Parse(args)
	co := newCaseOut(cf.out, "Harness.C07", "N",
		"shape/script/boundary: every signer shape 1-of-1 .. 16-of-16 and single signature (real witness bytes against the byte-level script model, the NeoVM model run on them against the real VM's gas); builder: CreateMultiSigRedeemScript bytes at the emit.Int width boundaries up to 1024 keys (thorough: sampled up to 200 keys, beyond the verification gas limit too) at the calculated fee -1/0/+1, and 2-3 signer mixes; "+
			"admit: a funded sender's transaction valid or made invalid in 1-2 chosen respects (system fee cap, script, expiry, not yet valid, blocked signer, size, fee below size*feePerByte+attribute fees, already on chain, named as conflict on chain, wrong signature, wrong witness script, attribute rules, balance, duplicate, pool conflict); "+
			"wstate: a transaction co-signed by a non-standard verification script (Ledger.currentIndex < or >= N, GAS.balanceOf(X) < v, constant true) or a deployed contract's verify method, submitted, then 1-4 blocks that flip the witness or not; "+
			"chist: 1-3 on-chain transactions naming the same hash in Conflicts, co-signed by the later submitter and/or a stranger, in blocks up to MaxTraceableBlocks+2 apart on a chain with MaxTraceableBlocks 6..12, then the named transaction submitted 0..MaxTraceableBlocks+1 blocks later; "+
			"attrs: a transaction in order otherwise with a MIXED attribute list (valid NotValidBefore / HighPriority with the committee co-signing / Conflicts on foreign hashes, and defective ones: a second Conflicts with the same hash at every pair of positions, a Conflicts naming an on-chain transaction, a second single-use attribute, HighPriority without the committee, NotValidBefore in the future, OracleResponse / NotaryAssisted / a reserved type on an ordinary transaction, the 16-attributes-and-signers limit) at every position, sent as bytes; "+
			"drain: three payers (one possibly 2-of-3) with 2-4 pooled transactions each and drains (the most prioritised transactions: GAS.transfer of most of a payer's GAS to a sink or to another payer, paid by the payer itself or by another payer and co-signed), MaxTransactionsPerBlock 1-3, 3-5 rounds of pack/block/refresh with the balance left covering exactly the first J remaining transactions -1/0/+1, and a probe submission at the edge of what is left; feevalue/governed boundary: fee.Calculate as a value and the threshold -1/0 at fractional execution fee factors (300001 in every run) for signature, 1-of-1, 2-of-3, 3-of-4; "+
			"pack: 256-265 equal tiny transactions with MaxBlockSize within 2 bytes of the block of the first 252/253/254 (var-uint boundary of the count); pools of 6-30 transactions under small MaxTransactionsPerBlock/MaxBlockSize/MaxBlockSystemFee, with and without StateRootInHeader; "+
			"non-trivial: multi-signature shape / any boundary / any admit case with a defect / a pack where a limit cut the set; distinct by Coq term")
	co.shard = 60
	if cf.replay != "" {
		cases, err := readReplay(cf.replay)
		if err != nil {
			return err
		}
		for _, c := range cases {
			var x c07Case
			if err := json.Unmarshal(c, &x); err != nil {
				return err
			}
			if err := c07Dispatch(co, x.Kind, x.Input); err != nil {
				return err
			}
		}
		return c07Finish(co)
	}
	r := newRng(cf.seed*0x2545F491 + 7)
	thorough := cf.tier == "thorough"
	enc := func(v any) json.RawMessage { b, _ := json.Marshal(v); return b }
	// boundary: all shapes up to 8-of-8 (quick), each at delta -1 and 0; +1 for a sample
	var shapes [][2]int
	shapes = append(shapes, [2]int{0, 0})
	maxN := 16
	for n := 1; n <= maxN; n++ {
		for m := 1; m <= n; m++ {
			// quick: every shape up to 10 keys, then 1, n/2 and n of n (the volume, not the kinds, is what is cut)
			if thorough || n <= 10 || m == 1 || m == n/2 || m == n {
				shapes = append(shapes, [2]int{m, n})
			}
		}
	}
	if thorough {
		for i := 0; i < 40; i++ {
			n := 9 + r.intn(192)
			shapes = append(shapes, [2]int{1 + r.intn(n), n})
		}
		shapes = append(shapes, [2]int{1, 152}, [2]int{1, 153}, [2]int{152, 152}, [2]int{16, 16}, [2]int{17, 17}, [2]int{16, 17})
	} else {
		shapes = append(shapes, [2]int{3, 17}, [2]int{17, 20}, [2]int{2, 160})
	}
	for _, s := range shapes {
		for _, d := range []int64{0, -1} {
			c07Dispatch(co, "boundary", enc(c07ShapeIn{Seed: r.next(), Shapes: [][2]int{s}, Delta: d}))
		}
		if r.chance(15) {
			c07Dispatch(co, "boundary", enc(c07ShapeIn{Seed: r.next(), Shapes: [][2]int{s}, Delta: 1}))
		}
	}
	// fractional execution fee factors (the committee sets picoGAS): in EVERY run the factor 300001 and one more, with
	// signature, 1-of-1, 2-of-3 and 3-of-4 witnesses at the threshold and one Datoshi below (the threshold from the closed
	// form proved for the model), the real witness against the NeoVM model at that factor, fee.Calculate as a value
	fracFactors := []int64{300001, pick(r, []int64{1, 7, 9999, 10001, 123457, 299999, 600001, 999999})}
	if thorough {
		fracFactors = []int64{300001, 1, 7, 9999, 10001, 123457, 299999, 600001, 999999, 1000000}
	}
	for _, f := range fracFactors {
		for _, s := range [][2]int{{0, 0}, {1, 1}, {2, 3}, {3, 4}} {
			for _, d := range []int64{0, -1} {
				c07Dispatch(co, "boundary", enc(c07ShapeIn{Seed: r.next(), Shapes: [][2]int{s}, Delta: d, ExecFee: f}))
			}
		}
	}
	for _, f := range []int64{300001, 1, 7, 9999, 10001, 123457, 299999, 300000, 600001, 999999, 1000000} {
		c07Dispatch(co, "feevalue", enc(c07FeeValIn{Seed: r.next(), Base: f, Shapes: [][2]int{{0, 0}, {1, 1}, {1, 2}, {2, 3}, {3, 4}, {7, 10}, {16, 16}, {3, 17}}}))
	}
	// the multisig builder alone, at the widths of emit.Int and up to 1024 keys
	bshapes := [][2]int{{16, 17}, {17, 17}, {1, 127}, {127, 128}, {128, 129}, {3, 255}, {255, 256}, {1, 1024}, {1024, 1024}}
	if thorough {
		for i := 0; i < 30; i++ {
			n := 17 + r.intn(1008)
			bshapes = append(bshapes, [2]int{1 + r.intn(n), n})
		}
	}
	for _, s := range bshapes {
		c07Dispatch(co, "builder", enc(c07ShapeIn{Seed: r.next(), Shapes: [][2]int{s}}))
	}
	nmix := cf.n / 12
	for i := 0; i < nmix; i++ {
		k := 2 + r.intn(2)
		var ss [][2]int
		for j := 0; j < k; j++ {
			if r.chance(35) {
				ss = append(ss, [2]int{0, 0})
			} else {
				n := 1 + r.intn(6)
				ss = append(ss, [2]int{1 + r.intn(n), n})
			}
		}
		c07Dispatch(co, "boundary", enc(c07ShapeIn{Seed: r.next(), Shapes: ss, Delta: pick(r, []int64{-1, 0, 0, 1})}))
	}
	// admit
	for i := 0; i < cf.n/4; i++ {
		c07Dispatch(co, "admit", enc(c07GenAdmit(r)))
	}
	// witnesses that depend on the chain state
	for i := 0; i < cf.n/7; i++ {
		c07Dispatch(co, "wstate", enc(c07GenWs(r)))
	}
	// on-chain conflict records over time
	for i := 0; i < cf.n/7; i++ {
		c07Dispatch(co, "chist", enc(c07GenHist(r)))
	}
	// pack: the var-uint boundary of the transaction count
	nmany := 5
	if thorough {
		nmany = 30
	}
	for i := 0; i < nmany; i++ {
		c07Dispatch(co, "pack", enc(c07GenPackMany(r)))
	}
	// pack
	for i := 0; i < cf.n/10; i++ {
		c07Dispatch(co, "pack", enc(c07GenPack(r, thorough)))
	}
	// attribute rules on mixed attribute lists
	for _, in := range c07GenAttrs(r, cf.n/10) {
		c07Dispatch(co, "attrs", enc(in))
	}
	// pack histories with blocks that move GAS
	for i := 0; i < cf.n/12; i++ {
		c07Dispatch(co, "drain", enc(c07GenDrain(r)))
	}
	keys := make([]string, 0)
	for k := range c07Seen {
		keys = append(keys, k)
	}
	sort.Strings(keys)
	co.extra["x_respects"] = keys
	return c07Finish(co)
}

// c07HexPieces: a long hexadecimal string as a Coq list of short string literals.
func c07HexPieces(h string) string {
	var ps []string
	for len(h) > 2048 {
		ps = append(ps, coqStr(h[:2048])+"%string")
		h = h[2048:]
	}
	ps = append(ps, coqStr(h)+"%string")
	return "[" + strings.Join(ps, ";") + "]"
}

// c07Finish: Harness/C07.v exports Coq's String library (hexadecimal strings in builder cases), which shadows
// List.concat in the generated files: qualify it.
func c07Finish(co *caseOut) error {
	if err := co.finish(); err != nil {
		return err
	}
	files, _ := filepath.Glob(filepath.Join(co.dir, "cases_*.v"))
	for _, f := range files {
		b, err := os.ReadFile(f)
		if err != nil {
			return err
		}
		nb := bytes.Replace(b, []byte("(concat cases)"), []byte("(List.concat cases)"), 1)
		if err := os.WriteFile(f, nb, 0o644); err != nil {
			return err
		}
	}
	return nil
}

var c07Seen = map[string]int{}
