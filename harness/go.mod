module nghx

go 1.25.0

require (
	github.com/decred/dcrd/dcrec/secp256k1/v4 v4.4.1
	github.com/mr-tron/base58 v1.2.0
	github.com/nspcc-dev/bbolt v0.0.0-20260404200350-24f70ceb2bd9
	github.com/nspcc-dev/dbft v0.4.0
	github.com/nspcc-dev/neo-go v0.121.0
	github.com/pierrec/lz4 v2.6.1+incompatible
	github.com/syndtr/goleveldb v1.0.1-0.20210305035536-64b5b1c73954
	go.uber.org/zap v1.27.1
	golang.org/x/crypto v0.52.0
	golang.org/x/text v0.37.0
)

require (
	github.com/antlr4-go/antlr/v4 v4.13.1 // indirect
	github.com/beorn7/perks v1.0.1 // indirect
	github.com/bits-and-blooms/bitset v1.24.0 // indirect
	github.com/cespare/xxhash/v2 v2.3.0 // indirect
	github.com/consensys/gnark-crypto v0.19.2 // indirect
	github.com/cpuguy83/go-md2man/v2 v2.0.7 // indirect
	github.com/davecgh/go-spew v1.1.1 // indirect
	github.com/decred/dcrd/crypto/ripemd160 v1.0.2 // indirect
	github.com/golang/snappy v0.0.1 // indirect
	github.com/google/uuid v1.6.0 // indirect
	github.com/gorilla/websocket v1.5.3 // indirect
	github.com/hashicorp/golang-lru/v2 v2.0.7 // indirect
	github.com/holiman/uint256 v1.3.2 // indirect
	github.com/munnerz/goautoneg v0.0.0-20191010083416-a7dc8b61c822 // indirect
	github.com/nspcc-dev/go-ordered-json v0.0.0-20260302080601-ff7471f924b3 // indirect
	github.com/nspcc-dev/hrw/v2 v2.0.4 // indirect
	github.com/nspcc-dev/neo-go/pkg/interop v0.0.0-20260609115526-14bc7067ea2e // indirect
	github.com/nspcc-dev/neofs-sdk-go v1.0.0-rc.21 // indirect
	github.com/nspcc-dev/rfc6979 v0.2.4 // indirect
	github.com/nspcc-dev/tzhash v1.8.4 // indirect
	github.com/pmezard/go-difflib v1.0.0 // indirect
	github.com/prometheus/client_golang v1.23.2 // indirect
	github.com/prometheus/client_model v0.6.2 // indirect
	github.com/prometheus/common v0.66.1 // indirect
	github.com/prometheus/procfs v0.16.1 // indirect
	github.com/russross/blackfriday/v2 v2.1.0 // indirect
	github.com/stretchr/testify v1.11.1 // indirect
	github.com/twmb/murmur3 v1.1.8 // indirect
	github.com/urfave/cli/v2 v2.27.7 // indirect
	github.com/xrash/smetrics v0.0.0-20250705151800-55b8f293f342 // indirect
	go.uber.org/multierr v1.11.0 // indirect
	go.yaml.in/yaml/v2 v2.4.2 // indirect
	golang.org/x/exp v0.0.0-20250911091902-df9299821621 // indirect
	golang.org/x/mod v0.35.0 // indirect
	golang.org/x/net v0.55.0 // indirect
	golang.org/x/sync v0.20.0 // indirect
	golang.org/x/sys v0.45.0 // indirect
	golang.org/x/term v0.43.0 // indirect
	golang.org/x/tools v0.44.0 // indirect
	google.golang.org/genproto/googleapis/rpc v0.0.0-20260414002931-afd174a4e478 // indirect
	google.golang.org/grpc v1.82.1 // indirect
	google.golang.org/protobuf v1.36.11 // indirect
	gopkg.in/yaml.v3 v3.0.1 // indirect
)

replace github.com/nspcc-dev/neo-go => /repo
