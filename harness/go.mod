module nghx

go 1.25.0

require github.com/nspcc-dev/neo-go v0.0.0

replace github.com/nspcc-dev/neo-go => /repo
