package main

// C09 — the layered key-value store behaves as one ordered map on every backend.
//
// Histories of put/delete/wrap/persist/persist-private/drop over stacks of MemCachedStore layers (shared and
// private, depth 1..4) on MemoryStore, BoltDB and LevelDB; after chosen ops the store is observed through
// Get, Seek, SeekAsync (with and without prefix trimming), dao.Simple.Seek/SeekAsync and the Storage.Find
// iterator. Every observation is one case: {backend, ops (the history up to that point), q (the query)} and is
// re-runnable from that input alone. The verdict is computed inside Coq (Harness/C09.v); the Go-side ordered-map
// oracle below only labels a deviation with its shape ("diag"), which known_findings.json matches on.

import (
	"bytes"
	"context"
	"encoding/json"
	"errors"
	"fmt"
	"os"
	"path/filepath"
	"sort"
	"strings"
	"time"

	"github.com/nspcc-dev/neo-go/pkg/core/dao"
	istorage "github.com/nspcc-dev/neo-go/pkg/core/interop/storage"
	"github.com/nspcc-dev/neo-go/pkg/core/storage"
	"github.com/nspcc-dev/neo-go/pkg/core/storage/dbconfig"
	"github.com/nspcc-dev/neo-go/pkg/vm/stackitem"
)

func init() { register("c09", runC09) }

// ---- inputs ----

type c09Op struct {
	T    string `json:"t"`              // put | del | wrap | persist | persistprivate | drop
	K    string `json:"k,omitempty"`    // hex key
	V    string `json:"v,omitempty"`    // hex value
	Priv bool   `json:"priv,omitempty"` // wrap: private layer
	I    int    `json:"i,omitempty"`    // persist: layer index below the top
	// gcbase | gctop: SeekGC over {P, S, Bw}; keep iff (first value byte, 0 if none) % max(1,Mod) != Res; stops after Stop pairs (0 = never)
	P    string `json:"p,omitempty"`
	S    string `json:"s,omitempty"`
	Bw   bool   `json:"bw,omitempty"`
	Mod  int    `json:"mod,omitempty"`
	Res  int    `json:"res,omitempty"`
	Stop int    `json:"stop,omitempty"`
}

type c09Query struct {
	Key    string `json:"key,omitempty"` // get
	API    int    `json:"api"`           // 0 Seek | 1 SeekAsync | 2 SeekAsync+cut | 3 dao.Seek | 4 dao.SeekAsync | 5 Find | 6 Find+RemovePrefix
	ID     uint32 `json:"id,omitempty"`  // contract id for api >= 3
	Prefix string `json:"prefix"`
	Start  string `json:"start"`
	Bw     bool   `json:"bw"`
	Depth  int    `json:"depth"`
	Lim    int    `json:"lim"` // stop after lim pairs, 0 = to the end
	Cut    bool   `json:"cut"` // informative: the answer's keys are trimmed (api >= 2)
	// api >= 3: what the consumer does with the SAME dao between two delivered pairs (bit set):
	//   1 GetStorageItem(same id, key shorter than the scan prefix)   2 GetStorageItem(other id, longer key)
	//   4 nested Seek(other id)   8 PutStorageItem(other id, ..)   16 DeleteStorageItem(other id, ..)
	Re int `json:"re,omitempty"`
}

type c09Input struct {
	Backend string   `json:"backend"` // mem | bolt | level
	Ops     []c09Op  `json:"ops"`
	Q       c09Query `json:"q"`
}

type c09KV struct{ K, V []byte }

// ---- the real stack ----

// c09Fwd forwards to a store that can be replaced (the LevelDB handle after a close + reopen)
type c09Fwd struct{ storage.Store }

type c09Stack struct {
	ldb     *storage.LevelDBStore // the LevelDB handle behind base (nil for the other backends)
	ldbPath string
	fwd     *c09Fwd
	base   storage.Store
	layers []*storage.MemCachedStore // bottom first; layers[i] == daos[i].Store
	daos   []*dao.Simple             // the same layers as dao.Simple objects (NewSimple / GetWrapped / GetPrivate)
	privs  []bool
	// shadow: what was written where (Go-side oracle, used for non-triviality and for labelling deviations)
	sh     []map[string][]byte // nil value = tombstone
	shBase map[string][]byte
}

var c09BackendNo = map[string]int{"mem": 0, "bolt": 1, "level": 2}

// observations per backend (written to meta.json as x_backends)
var c09PerBackend = map[string]int{}

func c09NewStack(backend, dir string, seq int) (*c09Stack, error) {
	var (
		base    storage.Store
		err     error
		ldb     *storage.LevelDBStore
		fwd     *c09Fwd
		ldbPath string
	)
	switch backend {
	case "mem":
		base = storage.NewMemoryStore()
	case "bolt":
		base, err = storage.NewBoltDBStore(dbconfig.BoltDBOptions{FilePath: filepath.Join(dir, fmt.Sprintf("b%d.bolt", seq))})
	case "level":
		path := filepath.Join(dir, fmt.Sprintf("l%d", seq))
		ldb, err = storage.NewLevelDBStore(dbconfig.LevelDBOptions{DataDirectoryPath: path})
		if err == nil {
			fwd = &c09Fwd{Store: ldb}
			base, ldbPath = fwd, path
		}
	default:
		err = fmt.Errorf("unknown backend %q", backend)
	}
	if err != nil {
		return nil, err
	}
	s := &c09Stack{base: base, shBase: map[string][]byte{}, ldb: ldb, ldbPath: ldbPath, fwd: fwd}
	s.daos = []*dao.Simple{dao.NewSimple(base, false)} // = NewMemCachedStore(base) + the dao's own state
	s.layers = []*storage.MemCachedStore{s.daos[0].Store}
	s.privs = []bool{false}
	s.sh = []map[string][]byte{{}}
	return s, nil
}

func (s *c09Stack) close(dir, backend string, seq int) {
	s.base.Close()
	switch backend {
	case "bolt":
		os.Remove(filepath.Join(dir, fmt.Sprintf("b%d.bolt", seq)))
	case "level":
		os.RemoveAll(filepath.Join(dir, fmt.Sprintf("l%d", seq)))
	}
}

func (s *c09Stack) top() *storage.MemCachedStore { return s.layers[len(s.layers)-1] }

// settle makes the state of a LevelDB backend independent of the timing of goleveldb's background compaction: after a
// write to the base it waits (polling observable conditions, bounded) until no level-0 compaction is pending and the
// table files the compaction made obsolete are gone from the directory. What the database does from such a state on is
// deterministic — including finding F51, which needs exactly this state.
func (s *c09Stack) settle() error {
	if s.ldb == nil {
		return nil
	}
	// read every table once: whether a table is in goleveldb's table cache is part of the state F51 depends on, and with
	// all of them cached the behaviour is the same whether or not observations were made in between (replayability)
	s.ldb.Seek(storage.SeekRange{Prefix: []byte{}}, func(_, _ []byte) bool { return true })
	deadline := time.Now().Add(c09StepTimeout / 2) // (shorter than a schedule step, so that this diagnosis comes first)
	for {
		l0, _ := s.ldb.VerifProperty("leveldb.num-files-at-level0")
		live := 0
		for l := 0; l < 7; l++ {
			q, _ := s.ldb.VerifProperty(fmt.Sprintf("leveldb.num-files-at-level%d", l))
			var n int
			fmt.Sscan(q, &n)
			live += n
		}
		var n0 int
		fmt.Sscan(l0, &n0)
		onDisk, _ := filepath.Glob(filepath.Join(s.ldbPath, "*.ldb"))
		if n0 < 4 && len(onDisk) == live {
			return nil
		}
		if time.Now().After(deadline) {
			lg, _ := os.ReadFile(filepath.Join(s.ldbPath, "LOG"))
			fmt.Fprintf(os.Stderr, "nghx c09: LevelDB did not settle: level0=%d live=%d on disk=%v\n%s\n", n0, live, onDisk, lg)
			return errors.New("LevelDB background compaction did not settle in time")
		}
		time.Sleep(50 * time.Microsecond) // polling interval only
	}
}

// reopen closes the LevelDB handle and opens the same directory again (the layers keep pointing at the forwarder)
func (s *c09Stack) reopen() error {
	if s.ldb == nil {
		return nil
	}
	if err := s.ldb.Close(); err != nil {
		return err
	}
	ldb, err := storage.NewLevelDBStore(dbconfig.LevelDBOptions{DataDirectoryPath: s.ldbPath})
	if err != nil {
		return err
	}
	s.ldb, s.fwd.Store = ldb, ldb
	return nil
}

// shadowWriteBelow mirrors PutChangeSet of layer idx's map into whatever is below it.
func (s *c09Stack) shadowWriteBelow(idx int) {
	m := s.sh[idx]
	if idx == 0 {
		for k, v := range m {
			if v == nil {
				delete(s.shBase, k)
			} else {
				s.shBase[k] = v
			}
		}
	} else {
		for k, v := range m {
			s.sh[idx-1][k] = v
		}
	}
}

func (s *c09Stack) pop() {
	n := len(s.layers) - 1
	s.layers, s.privs, s.sh, s.daos = s.layers[:n], s.privs[:n], s.sh[:n], s.daos[:n]
}

// apply runs one op on the real stack and on the shadow; every op is total (an op that does not apply is a no-op),
// so that any sub-list of a history is a history (the shrinker drops ops freely).
func (s *c09Stack) apply(o c09Op) error {
	n := len(s.layers)
	switch o.T {
	case "put":
		k, v := unhx(o.K), unhx(o.V)
		if v == nil {
			v = []byte{}
		}
		s.top().Put(k, v)
		s.sh[n-1][string(k)] = v
	case "del":
		k := unhx(o.K)
		s.top().Delete(k)
		s.sh[n-1][string(k)] = nil
	case "wrap":
		var nd *dao.Simple
		if o.Priv {
			nd = s.daos[n-1].GetPrivate() // NewPrivateMemCachedStore(top); a private dao builds its keys in one reusable buffer
		} else {
			nd = s.daos[n-1].GetWrapped() // NewMemCachedStore(top)
		}
		s.daos = append(s.daos, nd)
		s.layers = append(s.layers, nd.Store)
		s.privs = append(s.privs, o.Priv)
		s.sh = append(s.sh, map[string][]byte{})
	case "persist":
		idx := n - 1 - o.I
		if idx < 0 || o.I < 0 {
			return nil
		}
		if s.privs[idx] {
			if o.I != 0 || n < 2 {
				return nil
			}
			if _, err := s.layers[idx].Persist(); err != nil {
				return err
			}
			s.shadowWriteBelow(idx)
			s.pop()
			return nil
		}
		if _, err := s.layers[idx].Persist(); err != nil {
			return err
		}
		s.shadowWriteBelow(idx)
		s.sh[idx] = map[string][]byte{}
		if idx == 0 {
			return s.settle()
		}
	case "persistprivate":
		if n < 2 || !s.privs[n-1] {
			return nil
		}
		s.layers[n-2].PersistPrivate(s.layers[n-1])
		s.shadowWriteBelow(n - 1)
		s.pop()
	case "drop":
		if n >= 2 {
			s.pop()
		}
	case "gcbase", "gctop":
		prefix, start := unhx(o.P), unhx(o.S)
		if len(prefix) == 0 {
			return nil // empty Prefix is not supported by MemoryStore/MemCachedStore (store.go), not generated
		}
		mod := max(1, o.Mod)
		keep := func(v []byte) bool {
			b := 0
			if len(v) > 0 {
				b = int(v[0])
			}
			return b%mod != o.Res
		}
		visited := 0
		cb := func(_, v []byte) (bool, bool) {
			visited++
			return keep(v), o.Stop == 0 || visited < o.Stop
		}
		rng := storage.SeekRange{Prefix: prefix, Start: start, Backwards: o.Bw}
		var (
			err error
			sh  map[string][]byte
		)
		if o.T == "gcbase" {
			err, sh = s.base.SeekGC(rng, cb), s.shBase
			if err == nil {
				err = s.settle()
			}
		} else {
			err, sh = s.top().SeekGC(rng, cb), s.sh[n-1]
		}
		if err != nil {
			return err
		}
		live := map[string][]byte{}
		for k, v := range sh {
			if v != nil {
				live[k] = v
			}
		}
		for i, kv := range c09RangeOf(live, prefix, start, o.Bw) {
			if o.Stop != 0 && i >= o.Stop {
				break
			}
			if !keep(kv.V) {
				delete(sh, string(kv.K))
			}
		}
	default:
		return fmt.Errorf("unknown op %q", o.T)
	}
	return nil
}

// ---- Go-side ordered-map oracle (labels only) ----

func c09SuccPrefix(p []byte) []byte {
	for i := len(p) - 1; i >= 0; i-- {
		if p[i] < 0xff {
			l := append([]byte{}, p[:i+1]...)
			l[i]++
			return l
		}
	}
	return nil
}

// flatDepth: net effect of the d topmost layers (everything for d = 0 or d beyond the stack)
func (s *c09Stack) flatDepth(d int) map[string][]byte {
	out := map[string][]byte{}
	n := len(s.sh)
	lo := 0
	if d == 0 || d > n {
		for k, v := range s.shBase {
			out[k] = v
		}
	} else {
		lo = n - d
	}
	for i := lo; i < n; i++ {
		for k, v := range s.sh[i] {
			if v == nil {
				delete(out, k)
			} else {
				out[k] = v
			}
		}
	}
	return out
}

func c09InRange(prefix, start []byte, bw bool, k []byte) bool {
	if !bytes.HasPrefix(k, prefix) {
		return false
	}
	ps := append(append([]byte{}, prefix...), start...)
	if !bw {
		return bytes.Compare(k, ps) >= 0
	}
	return bytes.Compare(k, ps) <= 0 || bytes.HasPrefix(k, ps)
}

// expected answer with FULL keys (before trimming), in emission order
func (s *c09Stack) oracle(prefix, start []byte, bw bool, depth int) []c09KV {
	var out []c09KV
	for k, v := range s.flatDepth(depth) {
		if c09InRange(prefix, start, bw, []byte(k)) {
			out = append(out, c09KV{[]byte(k), v})
		}
	}
	sort.Slice(out, func(i, j int) bool {
		c := bytes.Compare(out[i].K, out[j].K)
		if bw {
			return c > 0
		}
		return c < 0
	})
	return out
}

// levels that hold a key of the range (layers with an entry, tombstones included, and the base)
func (s *c09Stack) levelsHit(prefix, start []byte, bw bool) int {
	n := 0
	for _, m := range s.sh {
		for k := range m {
			if c09InRange(prefix, start, bw, []byte(k)) {
				n++
				break
			}
		}
	}
	for k := range s.shBase {
		if c09InRange(prefix, start, bw, []byte(k)) {
			n++
			break
		}
	}
	return n
}

// ---- observations ----

func c09Full(q c09Query) (prefix []byte, trimLen int, reprefix []byte) {
	p := unhx(q.Prefix)
	if q.API >= 3 {
		full := []byte{byte(storage.STStorage), byte(q.ID), byte(q.ID >> 8), byte(q.ID >> 16), byte(q.ID >> 24)}
		full = append(full, p...)
		if q.API == 5 {
			return full, len(full), p
		}
		return full, len(full), nil
	}
	if q.API == 2 {
		return p, len(p), nil
	}
	return p, 0, nil
}

const c09OtherID = 0x03030303 // the contract the re-entrant calls touch (never the scanned one)

func c09Seek(s *c09Stack, q c09Query) (res []c09KV, panicked string) {
	res, _, panicked = c09SeekRe(s, q)
	return
}

// c09SeekRe also returns the writes the consumer made through the dao while it was consuming the scan (store-level ops)
func c09SeekRe(s *c09Stack, q c09Query) (res []c09KV, side []c09Op, panicked string) {
	top := s.top()
	rng := storage.SeekRange{Prefix: unhx(q.Prefix), Start: unhx(q.Start), Backwards: q.Bw, SearchDepth: q.Depth}
	if rng.Prefix == nil {
		rng.Prefix = []byte{}
	}
	collect := func(k, v []byte) bool {
		res = append(res, c09KV{bytes.Clone(k), bytes.Clone(v)})
		return q.Lim == 0 || len(res) < q.Lim
	}
	fromChan := func(ch chan storage.KeyValue, cancel context.CancelFunc) {
		for kv := range ch {
			res = append(res, c09KV{bytes.Clone(kv.Key), bytes.Clone(kv.Value)})
			if q.Lim != 0 && len(res) >= q.Lim {
				break
			}
		}
		cancel()
		for range ch { //nolint:revive // drain, as ic.RegisterCancelFunc does
		}
	}
	d := s.daos[len(s.daos)-1]
	// re-entrancy: the consumer uses the same dao between two delivered pairs ("f() can use dao too")
	nre := 0
	reenter := func() {
		if q.Re == 0 || q.API < 3 {
			return
		}
		nre++
		up := unhx(q.Prefix)
		if q.Re&1 != 0 {
			d.GetStorageItem(int32(q.ID), up[:len(up)/2])
		}
		if q.Re&2 != 0 {
			d.GetStorageItem(int32(c09OtherID), append(append([]byte{}, up...), 0x01, 0x70, 0xff, byte(nre)))
		}
		if q.Re&4 != 0 {
			d.Seek(int32(c09OtherID), storage.SeekRange{Prefix: []byte{0x01}, Backwards: nre%2 == 0}, func(_, _ []byte) bool { return true })
		}
		if q.Re&8 != 0 {
			k, v := []byte{0x01, byte(nre % 3)}, []byte{0xe0, byte(nre)}
			d.PutStorageItem(int32(c09OtherID), k, v)
			side = append(side, c09Op{T: "put", K: hx(append([]byte{0x70, 0x03, 0x03, 0x03, 0x03}, k...)), V: hx(v)})
		}
		if q.Re&16 != 0 {
			k := []byte{0x01, byte((nre + 1) % 3)}
			d.DeleteStorageItem(int32(c09OtherID), k)
			side = append(side, c09Op{T: "del", K: hx(append([]byte{0x70, 0x03, 0x03, 0x03, 0x03}, k...))})
		}
	}
	panicked = catch(func() {
		switch q.API {
		case 0:
			top.Seek(rng, collect)
		case 1, 2:
			ctx, cancel := context.WithCancel(context.Background())
			fromChan(top.SeekAsync(ctx, rng, q.API == 2), cancel)
		case 3:
			d.Seek(int32(q.ID), rng, func(k, v []byte) bool {
				cont := collect(k, v)
				reenter()
				return cont
			})
		case 4:
			ctx, cancel := context.WithCancel(context.Background())
			ch := d.SeekAsync(ctx, int32(q.ID), rng)
			for kv := range ch {
				res = append(res, c09KV{bytes.Clone(kv.Key), bytes.Clone(kv.Value)})
				reenter()
				if q.Lim != 0 && len(res) >= q.Lim {
					break
				}
			}
			cancel()
			for range ch { //nolint:revive // drain
			}
		case 5, 6:
			opts := int64(istorage.FindDefault)
			if q.API == 6 {
				opts |= istorage.FindRemovePrefix
			}
			if q.Bw {
				opts |= istorage.FindBackwards
			}
			ctx, cancel := context.WithCancel(context.Background())
			ch := d.SeekAsync(ctx, int32(q.ID), rng)
			it := istorage.NewIterator(ch, rng.Prefix, opts)
			for it.Next() {
				st := it.Value().Value().([]stackitem.Item)
				k, _ := st[0].TryBytes()
				v, _ := st[1].TryBytes()
				res = append(res, c09KV{bytes.Clone(k), bytes.Clone(v)})
				reenter() // the contract does other storage calls between two Next calls
				if q.Lim != 0 && len(res) >= q.Lim {
					break
				}
			}
			cancel()
			for range ch { //nolint:revive // drain
			}
		default:
			panic("bad api")
		}
	})
	return res, side, panicked
}

// diag labels the shape of a deviation from the ordered-map oracle (nil when there is none):
//   "bw-start-ext"     the pair differs only for a key that strictly extends prefix+start of a backward seek with a start
//   "trim-shadow"      a pair is missing whose full key equals the trimmed key of an emitted pair (prefix trimming on)
//   "other"            anything else
func c09Diag(s *c09Stack, q c09Query, got []c09KV) []string {
	full, trimLen, reprefix := c09Full(q)
	start := unhx(q.Start)
	exp := s.oracle(full, start, q.Bw, q.Depth)
	// bring the observation back to full keys where that is possible without guessing
	gotFull := make([]c09KV, len(got))
	for i, kv := range got {
		k := kv.K
		if reprefix != nil {
			k = k[min(len(reprefix), len(k)):]
		}
		if trimLen > 0 {
			k = append(append([]byte{}, full...), k...)
		}
		gotFull[i] = c09KV{k, kv.V}
	}
	if q.Lim != 0 && len(exp) > q.Lim {
		exp = exp[:q.Lim]
	}
	same := len(exp) == len(gotFull)
	for i := 0; same && i < len(exp); i++ {
		same = bytes.Equal(exp[i].K, gotFull[i].K) && bytes.Equal(exp[i].V, gotFull[i].V)
	}
	if same {
		return nil
	}
	if q.Lim != 0 {
		return []string{"other-under-limit"}
	}
	em := map[string][]byte{}
	gm := map[string][]byte{}
	for _, kv := range exp {
		em[string(kv.K)] = kv.V
	}
	for _, kv := range gotFull {
		if _, dup := gm[string(kv.K)]; dup {
			return []string{"other-duplicate"}
		}
		gm[string(kv.K)] = kv.V
	}
	labels := map[string]bool{}
	ps := append(append([]byte{}, full...), start...)
	classify := func(k string, missing bool) {
		kb := []byte(k)
		switch {
		case q.Bw && len(start) > 0 && bytes.HasPrefix(kb, ps) && len(kb) > len(ps):
			labels["bw-start-ext"] = true
		case missing && trimLen > 0 && func() bool {
			_, ok := gm[string(full)+k]
			return ok
		}():
			labels["trim-shadow"] = true
		default:
			labels["other"] = true
		}
	}
	for k, v := range em {
		if g, ok := gm[k]; !ok {
			classify(k, true)
		} else if !bytes.Equal(g, v) {
			classify(k, false)
		}
	}
	for k := range gm {
		if _, ok := em[k]; !ok {
			classify(k, false)
		}
	}
	if len(labels) == 0 { // same pairs, different order
		labels["other-order"] = true
	}
	out := []string{}
	for l := range labels {
		out = append(out, l)
	}
	sort.Strings(out)
	return out
}

func c09SameKVs(a, b []c09KV) bool {
	if len(a) != len(b) {
		return false
	}
	for i := range a {
		if !bytes.Equal(a[i].K, b[i].K) || !bytes.Equal(a[i].V, b[i].V) {
			return false
		}
	}
	return true
}

// ---- Coq printers ----

func c09CoqOps(ops []c09Op) string {
	xs := make([]string, 0, len(ops))
	for _, o := range ops {
		switch o.T {
		case "put":
			xs = append(xs, fmt.Sprintf("P %s %s", coqBytes(unhx(o.K)), coqBytes(unhx(o.V))))
		case "del":
			xs = append(xs, "D "+coqBytes(unhx(o.K)))
		case "wrap":
			xs = append(xs, "W "+coqBool(o.Priv))
		case "persist":
			i := o.I
			if i < 0 {
				i = 1 << 20
			}
			xs = append(xs, fmt.Sprintf("F %d", i))
		case "persistprivate":
			xs = append(xs, "PP")
		case "drop":
			xs = append(xs, "X")
		case "gcbase", "gctop":
			if o.P == "" {
				continue
			}
			c := "GB"
			if o.T == "gctop" {
				c = "GT"
			}
			xs = append(xs, fmt.Sprintf("%s (R %s %s %s 0) (G %d %d %d)", c, coqBytes(unhx(o.P)), coqBytes(unhx(o.S)), coqBool(o.Bw), max(1, o.Mod), o.Res, o.Stop))
		}
	}
	return coqList(xs)
}

func c09CoqKVs(kvs []c09KV) string {
	xs := make([]string, len(kvs))
	for i, kv := range kvs {
		xs[i] = fmt.Sprintf("(%s,%s)", coqBytes(kv.K), coqBytes(kv.V))
	}
	return coqList(xs)
}

func c09JSONKVs(kvs []c09KV) [][2]string {
	out := make([][2]string, len(kvs))
	for i, kv := range kvs {
		out[i] = [2]string{hx(kv.K), hx(kv.V)}
	}
	return out
}

// ---- one observation = one case ----

// c09Observe makes one observation and records it as a case; it returns the store-level writes a re-entrant consumer made
// (they become part of the history that later cases carry)
func c09Observe(co *caseOut, s *c09Stack, in c09Input, kind string) (side []c09Op) {
	bk := c09BackendNo[in.Backend]
	q := in.Q
	switch kind {
	case "get":
		k := unhx(q.Key)
		var (
			v   []byte
			err error
		)
		if p := catch(func() { v, err = s.top().Get(k) }); p != "" {
			co.violation(kind, "panic: "+p, in, nil)
			return
		}
		found := err == nil
		if err != nil && err != storage.ErrKeyNotFound {
			co.violation(kind, "Get error: "+err.Error(), in, nil)
			return
		}
		// shadow: where the key is decided
		level := "absent"
		for i := len(s.sh) - 1; i >= 0 && level == "absent"; i-- {
			if x, ok := s.sh[i][string(k)]; ok {
				level = fmt.Sprintf("layer%d", len(s.sh)-1-i)
				if x == nil {
					level += "-tomb"
				}
			}
		}
		if level == "absent" {
			if _, ok := s.shBase[string(k)]; ok {
				level = "base"
			}
		}
		impl := map[string]any{"found": found, "value": hx(v)}
		if ev, eok := s.flatDepth(0)[string(k)]; eok != found || (found && !bytes.Equal(ev, v)) {
			impl["diag"] = []string{"other"}
			if s.ldb != nil { // does the deviation heal when the LevelDB handle is reopened? (finding F51)
				if err := s.reopen(); err == nil {
					v2, err2 := s.top().Get(k)
					if (err2 == nil) == eok && (!eok || bytes.Equal(ev, v2)) {
						impl["diag"] = []string{"leveldb-invisible-until-reopen"}
					}
				}
			}
		}
		c09PerBackend[in.Backend]++
		co.add(kind, level, level != "absent", in, impl,
			fmt.Sprintf("CGet %d %s %s %s", bk, c09CoqOps(in.Ops), coqBytes(k), coqOpt(coqBytes(v), found)))
	case "seek":
		res, sd, p := c09SeekRe(s, q)
		side = sd
		defer func() { // the consumer's writes go into the top layer (shadow); the oracle below still sees the state before
			for _, o := range sd {
				if o.T == "put" {
					s.sh[len(s.sh)-1][string(unhx(o.K))] = unhx(o.V)
				} else {
					s.sh[len(s.sh)-1][string(unhx(o.K))] = nil
				}
			}
		}()
		if p != "" {
			co.violation(kind, "panic: "+p, in, nil)
			return
		}
		full, _, _ := c09Full(q)
		hit := s.levelsHit(full, unhx(q.Start), q.Bw)
		impl := map[string]any{"res": c09JSONKVs(res)}
		if d := c09Diag(s, q, res); d != nil {
			if q.Lim != 0 {
				// an early-stopped answer is labelled by the deviation of the full answer it is a prefix of
				q0 := q
				q0.Lim, q0.Re = 0, 0
				res0, p0 := c09Seek(s, q0)
				if p0 == "" && len(res0) >= len(res) && c09SameKVs(res0[:len(res)], res) && (len(res) == q.Lim || len(res) == len(res0)) {
					if d0 := c09Diag(s, q0, res0); d0 != nil {
						d = d0
					}
				}
			}
			if s.ldb != nil { // does the deviation heal when the LevelDB handle is reopened? (finding F51)
				if err := s.reopen(); err == nil {
					q2 := q
					q2.Re = 0
					if res2, p2 := c09Seek(s, q2); p2 == "" && c09Diag(s, q, res2) == nil {
						d = []string{"leveldb-invisible-until-reopen"}
					}
				}
			}
			impl["diag"] = d
		}
		dirs := "fw"
		if q.Bw {
			dirs = "bw"
		}
		st := ""
		if q.Start != "" {
			st = "-S"
		}
		lim := ""
		if q.Lim != 0 {
			lim = "-lim"
		}
		tag := fmt.Sprintf("a%d-%s%s-d%d%s-L%d", q.API, dirs, st, min(q.Depth, 2), lim, min(hit, 3))
		if q.Re != 0 && q.API >= 3 {
			tag += "-re"
		}
		c09PerBackend[in.Backend]++
		co.add(kind, tag, hit >= 2, in, impl,
			fmt.Sprintf("CSeek %d %s %d %d (R %s %s %s %d) %d %s", bk, c09CoqOps(in.Ops), q.API, q.ID,
				coqBytes(unhx(q.Prefix)), coqBytes(unhx(q.Start)), coqBool(q.Bw), q.Depth, q.Lim, c09CoqKVs(res)))
	default:
		panic("unknown kind " + kind)
	}
	return side
}

// ---- generator ----

var (
	c09First = []byte{0x70, 0x71, 0x03}
	c09Body  = []byte{0x00, 0x70, 0x80, 0xff}
)

const c09ContractID = 0x70707070 // LE bytes 70 70 70 70: the dao key header 70 70707070 stays inside the alphabet

func c09RandBody(r *rng, maxLen int) []byte {
	n := r.intn(maxLen + 1)
	b := make([]byte, n)
	for i := range b {
		b[i] = pick(r, c09Body)
	}
	return b
}

// pool of colliding keys: prefixes / extensions of each other, doubled prefixes, dao-region keys
func c09KeyPool(r *rng) [][]byte {
	var pool [][]byte
	seen := map[string]bool{}
	add := func(k []byte) {
		if len(k) > 0 && len(k) <= 14 && !seen[string(k)] {
			seen[string(k)] = true
			pool = append(pool, k)
		}
	}
	hdr := []byte{0x70, 0x70, 0x70, 0x70, 0x70}
	n := 7 + r.intn(8)
	for tries := 0; len(pool) < n && tries < 200; tries++ {
		c := r.intn(100)
		switch {
		case len(pool) == 0 || c < 25:
			add(append([]byte{pick(r, c09First)}, c09RandBody(r, 3)...))
		case c < 45: // extension of a pool key
			k := pick(r, pool)
			add(append(append([]byte{}, k...), c09RandBody(r, 2)...))
		case c < 55: // proper prefix of a pool key
			k := pick(r, pool)
			add(append([]byte{}, k[:1+r.intn(len(k))]...))
		case c < 75: // doubling: P ++ k for a non-empty prefix P of k (the trimmed key of P++k is k itself)
			k := pick(r, pool)
			p := k[:1+r.intn(len(k))]
			add(append(append([]byte{}, p...), k...))
		case c < 90: // contract region of the dao level
			add(append(append([]byte{}, hdr...), c09RandBody(r, 3)...))
		default: // 0xff-terminated
			k := pick(r, pool)
			add(append(append([]byte{}, k...), 0xff))
		}
	}
	return pool
}

func c09GenQuery(r *rng, pool [][]byte, depthMax int) c09Query {
	var q c09Query
	k := pick(r, pool)
	// prefix: a non-empty prefix of a pool key, sometimes the key itself or a 0xff-terminated one
	p := append([]byte{}, k[:1+r.intn(len(k))]...)
	switch r.intn(10) {
	case 0:
		p = append([]byte{}, k...)
	case 1:
		if len(p) >= 2 {
			p = append(p[:len(p)-1:len(p)-1], 0xff)
		} else {
			p = append(p, 0xff)
		}
	case 2, 3:
		p = p[:1]
	}
	q.API = pick(r, []int{0, 0, 1, 2, 2, 2, 3, 4, 4, 5, 6})
	if q.API != 0 && q.API != 1 && q.API != 3 && r.chance(35) {
		// trimming on: prefer a prefix P for which the pool holds both k = P++r and P++k (the trimmed key of P++k is k)
		var cands [][]byte
		for _, k1 := range pool {
			for _, k2 := range pool {
				if len(k2) > len(k1) && bytes.HasSuffix(k2, k1) {
					pp := k2[:len(k2)-len(k1)]
					if bytes.HasPrefix(k1, pp) {
						cands = append(cands, pp)
					}
				}
			}
		}
		if len(cands) > 0 {
			p = append([]byte{}, pick(r, cands)...)
		}
	}
	hdr := []byte{0x70, 0x70, 0x70, 0x70, 0x70}
	user := p
	if q.API >= 3 {
		q.ID = c09ContractID
		if bytes.HasPrefix(p, hdr) {
			user = p[5:]
		} else {
			user = c09RandBody(r, 2)
		}
		p = append(append([]byte{}, hdr...), user...)
	}
	q.Prefix = hx(user)
	// start: empty, or derived from a pool key under the prefix (exact, truncated so that keys extend it, extended)
	var start []byte
	if r.chance(60) {
		var under [][]byte
		for _, x := range pool {
			if bytes.HasPrefix(x, p) && len(x) > len(p) {
				under = append(under, x[len(p):])
			}
		}
		switch {
		case len(under) > 0 && r.chance(80):
			s := pick(r, under)
			switch r.intn(4) {
			case 0:
				start = append([]byte{}, s...)
			case 1, 2:
				start = append([]byte{}, s[:1+r.intn(len(s))]...)
			default:
				start = append(append([]byte{}, s...), pick(r, c09Body))
			}
		default:
			start = c09RandBody(r, 2)
		}
	}
	q.Bw = r.chance(50)
	if r.chance(40) {
		q.Depth = 1 + r.intn(depthMax+1)
	}
	if r.chance(25) {
		q.Lim = 1 + r.intn(3)
	}
	if q.API >= 5 { // Storage.Find passes only prefix and direction
		start = nil
		q.Depth = 0
	}
	q.Start = hx(start)
	q.Cut = q.API >= 2
	if q.API >= 3 && r.chance(50) {
		q.Re = 1 + r.intn(31)
	}
	return q
}

// ---- dao-level scans whose consumer re-enters the dao ----

var c09DaoHdr = []byte{0x70, 0x70, 0x70, 0x70, 0x70} // StoragePrefix + LE32(c09ContractID)

// keys of one contract, prefixes and extensions of one another
func c09DaoPool(r *rng) [][]byte {
	var pool [][]byte
	seen := map[string]bool{}
	for tries := 0; len(pool) < 6+r.intn(4) && tries < 100; tries++ {
		k := append(append([]byte{}, c09DaoHdr...), pick(r, []byte{0x70, 0x80}))
		k = append(k, c09RandBody(r, 3)...)
		if !seen[string(k)] {
			seen[string(k)] = true
			pool = append(pool, k)
		}
	}
	return pool
}

// several items of the contract flushed to the backend, then 1..3 nested private (or wrapped) layers with more writes
func c09GenDaoHistory(r *rng, pool [][]byte) []c09Op {
	var ops []c09Op
	v := 0
	put := func() {
		v++
		ops = append(ops, c09Op{T: "put", K: hx(pick(r, pool)), V: hx([]byte{byte(v)})})
	}
	for i := 0; i < 3+r.intn(4); i++ {
		put()
	}
	ops = append(ops, c09Op{T: "persist"})
	for d := 0; d < 1+r.intn(3); d++ {
		ops = append(ops, c09Op{T: "wrap", Priv: r.chance(75)})
		for i := 0; i < r.intn(3); i++ {
			if r.chance(75) {
				put()
			} else {
				ops = append(ops, c09Op{T: "del", K: hx(pick(r, pool))})
			}
		}
	}
	return ops
}

func c09GenDaoQuery(r *rng, pool [][]byte) c09Query {
	k := pick(r, pool)[5:]
	q := c09Query{API: pick(r, []int{3, 3, 3, 4, 4, 5, 6}), ID: c09ContractID, Bw: r.chance(50), Cut: true, Re: 1 + r.intn(31)}
	q.Prefix = hx(k[:r.intn(min(2, len(k))+1)])
	if q.API <= 4 && r.chance(35) {
		q.Start = hx(pick(r, [][]byte{{0x70}, {0x80}, {0x00}, {0x80, 0x00}}))
	}
	if r.chance(15) {
		q.Lim = 1 + r.intn(2)
	}
	return q
}

func c09GenHistory(r *rng, pool [][]byte, n int) []c09Op {
	ops := make([]c09Op, 0, n)
	depth := 1
	privs := []bool{false}
	vseq := 0
	for len(ops) < n {
		c := r.intn(100)
		if r.chance(6) { // flush cascade: every layer from the top down, so that the history's net effect reaches the base store
			for i := 0; i < depth; i++ {
				ops = append(ops, c09Op{T: "persist", I: i})
			}
			if privs[depth-1] && depth >= 2 {
				depth--
				privs = privs[:depth]
			}
			continue
		}
		if r.chance(7) { // SeekGC on the base store (as Blockchain does) or on the top layer's own maps
			k := pick(r, pool)
			o := c09Op{T: pick(r, []string{"gcbase", "gcbase", "gctop"}), P: hx(k[:1+r.intn(min(2, len(k)))]), Bw: r.chance(40),
				Mod: 1 + r.intn(3), Res: pick(r, []int{0, 0, 1})}
			if r.chance(70) { // aim at a pair the history has written: its key's prefix, the class of its value
				var empties []c09Op
				for _, w := range ops {
					if w.T == "put" && w.V == "" {
						empties = append(empties, w)
					}
				}
				for tries := 0; tries < 12 && len(ops) > 0; tries++ {
					w := ops[r.intn(len(ops))]
					if len(empties) > 0 && r.chance(50) {
						w = pick(r, empties) // empty values are values: a GC must treat them like any other
					}
					if w.T == "put" {
						wk, wv := unhx(w.K), unhx(w.V)
						o.P = hx(wk[:1+r.intn(min(3, len(wk)))])
						b := 0
						if len(wv) > 0 {
							b = int(wv[0])
						}
						o.Res = b % o.Mod
						break
					}
				}
			}
			if r.chance(45) {
				o.Stop = 1 + r.intn(3)
			}
			if r.chance(20) {
				o.S = hx(c09RandBody(r, 2))
			}
			if o.T == "gcbase" && r.chance(50) { // flush everything first, so that the base store has something to collect
				for i := 0; i < depth; i++ {
					ops = append(ops, c09Op{T: "persist", I: i})
				}
				if privs[depth-1] && depth >= 2 {
					depth--
					privs = privs[:depth]
				}
			}
			ops = append(ops, o)
			continue
		}
		if depth < 4 && r.chance(7) { // transaction-like: private wrap, one to three writes, commit into the layer below
			ops = append(ops, c09Op{T: "wrap", Priv: true})
			for j := 0; j < 1+r.intn(3); j++ {
				if r.chance(75) {
					vseq++
					ops = append(ops, c09Op{T: "put", K: hx(pick(r, pool)), V: hx([]byte{byte(vseq)})})
				} else {
					ops = append(ops, c09Op{T: "del", K: hx(pick(r, pool))})
				}
			}
			if r.chance(60) {
				ops = append(ops, c09Op{T: "persistprivate"})
			} else {
				ops = append(ops, c09Op{T: "persist", I: 0})
			}
			continue
		}
		switch {
		case c < 45:
			vseq++
			v := []byte{byte(vseq)}
			if r.chance(10) {
				v = append(v, byte(r.intn(256)))
			} else if r.chance(12) {
				v = []byte{} // an empty value is a value, not a tombstone
			}
			ops = append(ops, c09Op{T: "put", K: hx(pick(r, pool)), V: hx(v)})
		case c < 62:
			ops = append(ops, c09Op{T: "del", K: hx(pick(r, pool))})
		case c < 74:
			if depth < 4 {
				p := r.chance(55)
				ops = append(ops, c09Op{T: "wrap", Priv: p})
				depth++
				privs = append(privs, p)
			}
		case c < 88:
			i := r.intn(depth)
			ops = append(ops, c09Op{T: "persist", I: i})
			if i == 0 && privs[depth-1] && depth >= 2 {
				depth--
				privs = privs[:depth]
			}
		case c < 94:
			ops = append(ops, c09Op{T: "persistprivate"})
			if privs[depth-1] && depth >= 2 {
				depth--
				privs = privs[:depth]
			}
		default:
			if depth >= 2 && r.chance(50) {
				ops = append(ops, c09Op{T: "drop"})
				depth--
				privs = privs[:depth]
			}
		}
	}
	return ops
}

// a short history aimed at SeekGC: a few pairs (empty values among them), everything flushed, one GC whose rejected
// class is the class of a value that is there, sometimes a second layer with pending writes over the same keys
func c09GenGcHistory(r *rng, pool [][]byte) []c09Op {
	var ops []c09Op
	var vals [][]byte
	n := 3 + r.intn(4)
	for i := 0; i < n; i++ {
		v := []byte{byte(1 + r.intn(6))}
		if r.chance(30) {
			v = []byte{}
		}
		vals = append(vals, v)
		ops = append(ops, c09Op{T: "put", K: hx(pick(r, pool)), V: hx(v)})
	}
	ops = append(ops, c09Op{T: "persist"})
	if r.chance(40) {
		ops = append(ops, c09Op{T: "wrap", Priv: r.chance(50)}, c09Op{T: "put", K: hx(pick(r, pool)), V: hx([]byte{byte(7 + r.intn(3))})})
		if r.chance(50) {
			ops = append(ops, c09Op{T: "del", K: hx(pick(r, pool))})
		}
	}
	w := ops[r.intn(n)]
	wk, wv := unhx(w.K), unhx(w.V)
	o := c09Op{T: "gcbase", P: hx(wk[:1+r.intn(min(2, len(wk)))]), Bw: r.chance(50), Mod: 1 + r.intn(3)}
	if len(wv) > 0 {
		o.Res = int(wv[0]) % o.Mod
	}
	if r.chance(50) {
		o.Stop = 1 + r.intn(3)
	}
	ops = append(ops, o)
	if r.chance(50) {
		ops = append(ops, c09Op{T: "persist"}, c09Op{T: "persist", I: 1})
	}
	_ = vals
	return ops
}

func runC09(args []string) error {
	cf, fs := parseCommon("c09", args)
	fs.Parse(args)
	co := newCaseOut(cf.out, "Harness.C09", "N",
		"histories of 5-40 put/delete/wrap/persist/persist-private/drop ops over stacks of 1..4 MemCachedStore layers (shared and private) on "+
			"MemoryStore, BoltDB and LevelDB, keys from a colliding pool (first byte 70/71/03, bodies over 00/70/80/ff, prefixes, extensions, "+
			"doubled prefixes P++P++r, 0xff-terminated, dao contract region); after every few ops: Get of pool keys and Seek/SeekAsync(+cut)/"+
			"dao.Seek/dao.SeekAsync/Storage.Find iterator over ranges from the same pool (both directions, start points, SearchDepth 0..5, early stop); "+
			"a seek is non-trivial when keys of its range are held by at least two levels of the stack, a get when the key is held by some level; distinct by Coq term")
	co.shard = 150
	dir, err := os.MkdirTemp("", "nghx-c09-*")
	if err != nil {
		return err
	}
	defer os.RemoveAll(dir)

	if cf.replay != "" {
		cases, err := readReplay(cf.replay)
		if err != nil {
			return err
		}
		for i, c := range cases {
			var x struct {
				Kind  string   `json:"kind"`
				Input c09Input `json:"input"`
			}
			if err := json.Unmarshal(c, &x); err != nil {
				return err
			}
			if x.Kind == "failseek" || x.Kind == "failget" {
				var y struct {
					Input c09FInput `json:"input"`
				}
				if err := json.Unmarshal(c, &y); err != nil {
					return err
				}
				if err := c09RunFailCase(co, y.Input, x.Kind, dir, i); err != nil {
					return err
				}
				continue
			}
			if x.Kind == "sched2" {
				var y struct {
					Input c09SInput `json:"input"`
				}
				if err := json.Unmarshal(c, &y); err != nil {
					return err
				}
				if err := c09RunSched2(co, y.Input, dir, i); err != nil {
					return err
				}
				continue
			}
			if x.Kind == "lock" {
				var y struct {
					Input c09LInput `json:"input"`
				}
				if err := json.Unmarshal(c, &y); err != nil {
					return err
				}
				if err := c09RunLock(co, y.Input, dir, i); err != nil {
					return err
				}
				continue
			}
			if x.Kind == "sched" {
				var y struct {
					Input c09SInput `json:"input"`
				}
				if err := json.Unmarshal(c, &y); err != nil {
					return err
				}
				if err := c09RunSched(co, y.Input, dir, i); err != nil {
					return err
				}
				continue
			}
			s, err := c09NewStack(x.Input.Backend, dir, i)
			if err != nil {
				return err
			}
			for _, o := range x.Input.Ops {
				if err := s.apply(o); err != nil {
					s.close(dir, x.Input.Backend, i)
					return err
				}
			}
			c09Observe(co, s, x.Input, x.Kind)
			s.close(dir, x.Input.Backend, i)
		}
		co.extra["x_backends"] = c09PerBackend
		return co.finish()
	}

	r := newRng(cf.seed)
	backends := []string{"mem", "bolt", "level"}
	for h := 0; h < cf.n; h++ {
		backend := backends[h%3]
		pool := c09KeyPool(r)
		ops := c09GenHistory(r, pool, 5+r.intn(36))
		if h%6 >= 3 && h%6-3 == (h/6)%3 { // one history in six, rotating over the backends: aimed at SeekGC
			ops = c09GenGcHistory(r, pool)
		}
		daoHist := h%6 < 3 && h%6 == (h/6+1)%3 // another one in six: dao-level scans with re-entrant consumers
		if daoHist {
			pool = c09DaoPool(r)
			ops = c09GenDaoHistory(r, pool)
		}
		s, err := c09NewStack(backend, dir, h)
		if err != nil {
			return err
		}
		nextObs := r.intn(4)
		var executed []c09Op // the history as executed: the generated ops plus the writes of re-entrant consumers
		for i, o := range ops {
			if err := s.apply(o); err != nil {
				s.close(dir, backend, h)
				return fmt.Errorf("history %d op %d: %w", h, i, err)
			}
			executed = append(executed, o)
			if i < nextObs && i != len(ops)-1 && !strings.HasPrefix(o.T, "gc") { // a SeekGC is always looked at right away
				continue
			}
			nextObs = i + 1 + r.intn(6)
			prefixOps := append([]c09Op{}, executed...)
			for g := 0; g < 3; g++ {
				key := hx(pick(r, pool))
				if r.chance(60) { // a key the history has written
					for tries := 0; tries < 8; tries++ {
						if o := prefixOps[r.intn(len(prefixOps))]; o.K != "" {
							key = o.K
							break
						}
					}
				}
				c09Observe(co, s, c09Input{Backend: backend, Ops: prefixOps, Q: c09Query{Key: key}}, "get")
			}
			for g := 0; g < 5; g++ {
				q := c09GenQuery(r, pool, len(s.layers))
				if daoHist && r.chance(70) {
					q = c09GenDaoQuery(r, pool)
				}
				if side := c09Observe(co, s, c09Input{Backend: backend, Ops: prefixOps, Q: q}, "seek"); len(side) > 0 {
					executed = append(executed, side...)
					prefixOps = append([]c09Op{}, executed...)
				}
			}
		}
		s.close(dir, backend, h)
	}
	// schedules: reader steps against writers and the lock regions of Persist
	fam := min(cf.n, 240) // the forced-schedule families do not need the volume of the histories
	for i := 0; i < 4*fam; i++ {
		ops, q := c09GenSched(r)
		if err := c09RunSched(co, c09SInput{Backend: backends[i%3], Ops: ops, Q: q}, dir, cf.n+i); err != nil {
			return fmt.Errorf("schedule %d: %w", i, err)
		}
	}
	// lock-level schedules: a reader queued behind a queued Persist (needs the verif hook of pkg/core/storage)
	for i := 0; i < 2*fam; i++ {
		in := c09GenLock(r)
		in.Backend = backends[i%3]
		if err := c09RunLock(co, in, dir, 5*cf.n+i); err != nil {
			return fmt.Errorf("lock schedule %d: %w", i, err)
		}
	}
	// two shared layers: Persist of the middle layer around a three-step reader, any SearchDepth
	for i := 0; i < 2*fam; i++ {
		ops, q := c09GenSched2(r)
		if err := c09RunSched2(co, c09SInput{Backend: backends[i%3], Ops: ops, Q: q}, dir, 9*cf.n+i); err != nil {
			return fmt.Errorf("two-layer schedule %d: %w", i, err)
		}
	}
	// flushes that fail: the error branch of persist, with writes interleaved while the flush is blocked
	for i := 0; i < fam; i++ {
		if err := c09GenFailRun(co, r, backends[i%3], dir, 13*cf.n+i); err != nil {
			return fmt.Errorf("failing-flush run %d: %w", i, err)
		}
	}
	co.extra["x_backends"] = c09PerBackend
	return co.finish()
}
