package main

// C09, lock-level schedules (kind "lock"): the interleaving that the gate alone cannot force, because its
// scheduling points lie INSIDE the store: a reader that has executed whatever it executes before taking the read lock,
// then loses the lock to the first region of Persist, then runs its locked region and its lower read while the flush
// is still in flight. Needs the store's own lock: hook pkg/core/storage/verif_hooks.go (build tag verif).
//
//   harness   L.VerifRLock()                       (a long-running reader)
//   P         L.Persist()          parks on the write lock           (observed: VerifWriterPending)
//   R         Seek/SeekAsync/Get   runs its pre-lock code, parks on the read lock behind the queued writer
//                                                                    (observed: goroutine wait state, runtime.Stack)
//   harness   L.VerifRUnlock()  -> P's first region (maps into tempstore, fresh maps), P parks in the gated
//                                  PutChangeSet of the base store: the flush is in flight
//                               -> R's locked region, R's lower read                       = observation 1
//   harness   lets the flush finish; the same read again                                   = observation 2
//
// Expected at both points: range_query / lookup on the one ordered map (no lock region of Persist changes it).
// No sleep is used as synchronisation: every wait polls an observable condition and gives up after 30 s with an
// infrastructure error (never a violation).
//
// input: {backend, ops: [{t:"w",batch:[[k,v|null]..]} | {t:"persist"}], q:{prefix,start,bw | key}, reader: seek|async|get, phase: 1|2}

import (
	"bytes"
	"context"
	"fmt"
	"runtime"
	"strings"
	"time"

	"github.com/nspcc-dev/neo-go/pkg/core/storage"
)

type c09LInput struct {
	Backend string   `json:"backend"`
	Ops     []c09SOp `json:"ops"`
	Q       c09Query `json:"q"`
	Reader  string   `json:"reader"`
	Phase   int      `json:"phase"`
}

//go:noinline
func c09LockReaderRun(f func(), done chan struct{}) {
	f()
	close(done)
}

// c09Parked: is there a goroutine running fn that is parked in a sync wait (mutex / rwmutex / semaphore)?
var c09StackBuf = make([]byte, 1<<20)

func c09Parked(fn string) bool {
	buf := c09StackBuf
	n := runtime.Stack(buf, true)
	for _, g := range strings.Split(string(buf[:n]), "\n\n") {
		hdr, _, _ := strings.Cut(g, "\n")
		if strings.Contains(g, fn) && (strings.Contains(hdr, "[sync.") || strings.Contains(hdr, "[semacquire")) {
			return true
		}
	}
	return false
}

func c09Poll(cond func() bool) error {
	deadline := time.Now().Add(c09StepTimeout)
	for !cond() {
		if time.Now().After(deadline) {
			return c09Stuck("c09lock:poll")
		}
		runtime.Gosched()
		time.Sleep(20 * time.Microsecond) // polling interval only; the condition decides
	}
	return nil
}

func c09RunLock(co *caseOut, in c09LInput, dir string, seq int) error {
	base0, err := c09NewStack(in.Backend, dir, seq)
	if err != nil {
		return err
	}
	defer base0.close(dir, in.Backend, seq)
	g := &c09Gate{Store: base0.base,
		seekArrive: make(chan struct{}), seekGo: make(chan struct{}),
		putArrive: make(chan struct{}), putGo: make(chan struct{}),
		putWritten: make(chan struct{}), putGoExit: make(chan struct{})}
	g.settle = base0.settle
	L := storage.NewMemCachedStore(g)

	// history: batches and complete flushes; what is unflushed at the end is the batch in flight
	cm, cx := map[string][]byte{}, map[string][]byte{}
	var pre []string
	for _, o := range in.Ops {
		switch o.T {
		case "w":
			mem, stor := map[string][]byte{}, map[string][]byte{}
			var ents []string
			for _, e := range o.Batch {
				if e[0] == nil {
					continue
				}
				k := unhx(*e[0])
				if len(k) == 0 {
					continue
				}
				var v []byte
				if e[1] != nil {
					v = unhx(*e[1])
					if v == nil {
						v = []byte{}
					}
				}
				if k[0] == byte(storage.STStorage) || k[0] == byte(storage.STTempStorage) {
					stor[string(k)] = v
				} else {
					mem[string(k)] = v
				}
				cm[string(k)] = v
				ents = append(ents, fmt.Sprintf("(%s,%s)", coqBytes(k), coqOpt(coqBytes(v), v != nil)))
			}
			if err := L.PutChangeSet(mem, stor); err != nil {
				return err
			}
			pre = append(pre, "SW "+coqList(ents))
		case "persist":
			if _, err := L.Persist(); err != nil {
				return err
			}
			for k, v := range cm {
				if v == nil {
					delete(cx, k)
				} else {
					cx[k] = v
				}
			}
			cm = map[string][]byte{}
			pre = append(pre, "SSwap", "SLw", "SUn")
		default:
			return fmt.Errorf("unknown lock-schedule op %q", o.T)
		}
	}
	inflight := len(cm)
	flat := map[string][]byte{}
	for k, v := range cx {
		flat[k] = v
	}
	for k, v := range cm {
		if v == nil {
			delete(flat, k)
		} else {
			flat[k] = v
		}
	}

	prefix, start, key := unhx(in.Q.Prefix), unhx(in.Q.Start), unhx(in.Q.Key)
	rng := storage.SeekRange{Prefix: prefix, Start: start, Backwards: in.Q.Bw}
	type obs struct {
		kvs   []c09KV
		val   []byte
		found bool
		panic string
	}
	read := func() obs {
		var o obs
		o.panic = catch(func() {
			switch in.Reader {
			case "seek":
				L.Seek(rng, func(k, v []byte) bool {
					o.kvs = append(o.kvs, c09KV{bytes.Clone(k), bytes.Clone(v)})
					return true
				})
			case "async":
				ctx, cancel := context.WithCancel(context.Background())
				for kv := range L.SeekAsync(ctx, rng, false) {
					o.kvs = append(o.kvs, c09KV{bytes.Clone(kv.Key), bytes.Clone(kv.Value)})
				}
				cancel()
			case "get":
				v, err := L.Get(key)
				o.found, o.val = err == nil, bytes.Clone(v)
			default:
				panic("unknown reader " + in.Reader)
			}
		})
		return o
	}

	// ---- the choreography ----
	L.VerifRLock()
	g.putArmed = true
	persistDone := make(chan error, 1)
	go func() { _, err := L.Persist(); persistDone <- err }()
	if err := c09Poll(L.VerifWriterPending); err != nil { // P is queued for the write lock
		L.VerifRUnlock()
		return err
	}
	var o1 obs
	rDone := make(chan struct{})
	go c09LockReaderRun(func() { o1 = read() }, rDone)
	isDone := func(ch chan struct{}) bool {
		select {
		case <-ch:
			return true
		default:
			return false
		}
	}
	// R has run its pre-lock code and is queued behind the writer (or, for a store that does not lock here, is done)
	if err := c09Poll(func() bool { return isDone(rDone) || c09Parked("main.c09LockReaderRun") }); err != nil {
		L.VerifRUnlock()
		return err
	}
	L.VerifRUnlock()
	atGate := false
	select {
	case <-g.putArrive: // first region done, flush in flight
		atGate = true
	case err := <-persistDone: // nothing to flush
		if err != nil {
			return err
		}
	case <-time.After(c09StepTimeout):
		return c09Stuck("c09lock:select1")
	}
	if err := c09Wait(rDone, "c09lock:rDone"); err != nil { // R's locked region and lower read, flush still in flight
		return err
	}
	if atGate {
		g.putGo <- struct{}{}
		if err := c09Wait(g.putWritten, "c09lock:g.putWritten"); err != nil {
			return err
		}
		g.putGoExit <- struct{}{}
		select {
		case err := <-persistDone:
			if err != nil {
				return err
			}
		case <-time.After(c09StepTimeout):
			return c09Stuck("c09lock:select2")
		}
	}
	g.putArmed = false
	o2 := read()

	// ---- report ----
	bk := c09BackendNo[in.Backend]
	expKVs := c09RangeOf(flat, prefix, start, in.Q.Bw)
	expVal, expFound := flat[string(key)]
	for i, o := range []obs{o1, o2} {
		phase := i + 1
		if in.Phase != 0 && in.Phase != phase {
			continue
		}
		rec := in
		rec.Phase = phase
		if o.panic != "" {
			co.violation("lock", "panic: "+o.panic, rec, nil)
			continue
		}
		acts := append([]string{}, pre...)
		c09PerBackend[in.Backend]++
		if in.Reader == "get" {
			if phase == 1 {
				acts = append(acts, "SSwap")
			} else {
				acts = append(acts, "SSwap", "SLw", "SUn")
			}
			impl := map[string]any{"found": o.found, "value": hx(o.val)}
			if o.found != expFound || !bytes.Equal(o.val, expVal) {
				impl["diag"] = []string{"other"}
			}
			co.add("lock", fmt.Sprintf("get-phase%d", phase), inflight > 0, rec, impl,
				fmt.Sprintf("CLockGet %d %s %s %s", bk, coqList(acts), coqBytes(key), coqOpt(coqBytes(o.val), o.found)))
			continue
		}
		if phase == 1 {
			acts = append(acts, "SSwap", "SSnap", "SRead", "SLw", "SUn")
		} else {
			acts = append(acts, "SSwap", "SLw", "SUn", "SSnap", "SRead")
		}
		impl := map[string]any{"res": c09JSONKVs(o.kvs)}
		if !c09SameKVs(o.kvs, expKVs) {
			impl["diag"] = []string{"other"}
		}
		dirs := "fw"
		if in.Q.Bw {
			dirs = "bw"
		}
		co.add("lock", fmt.Sprintf("%s-%s-phase%d", in.Reader, dirs, phase), inflight > 0 && len(expKVs) > 0, rec, impl,
			fmt.Sprintf("CSched %d %s (R %s %s %s 0) %s", bk, coqList(acts), coqBytes(prefix), coqBytes(start), coqBool(in.Q.Bw), c09CoqKVs(o.kvs)))
	}
	return nil
}

func c09GenLock(r *rng) c09LInput {
	fb := pick(r, []byte{0x03, 0x70, 0x71}) // `mem` map (03) and `stor` map (70, 71)
	keys := [][]byte{{fb, 0x01}, {fb, 0x01, 0x00}, {fb, 0x01, 0x00, 0xff}, {fb, 0x02}, {fb, 0xff}, {fb ^ 0x73, 0x01}}
	vseq := 0
	batch := func(delPct int) c09SOp {
		var b [][2]*string
		used := map[int]bool{}
		for j := 0; j < 1+r.intn(4); j++ {
			ki := r.intn(len(keys))
			if used[ki] {
				continue
			}
			used[ki] = true
			k := hx(keys[ki])
			if r.chance(delPct) {
				b = append(b, [2]*string{&k, nil})
			} else {
				vseq++
				v := hx([]byte{byte(vseq)})
				b = append(b, [2]*string{&k, &v})
			}
		}
		return c09SOp{T: "w", Batch: b}
	}
	var ops []c09SOp
	if r.chance(70) { // something already flushed, so that deletions in flight have lower keys to hide
		ops = append(ops, batch(0))
		if r.chance(50) {
			ops = append(ops, batch(10))
		}
		ops = append(ops, c09SOp{T: "persist"})
	}
	ops = append(ops, batch(35)) // the batch in flight
	if r.chance(30) {
		ops = append(ops, batch(35))
	}
	in := c09LInput{Ops: ops, Reader: pick(r, []string{"seek", "seek", "async", "async", "get"})}
	if in.Reader == "get" {
		in.Q.Key = hx(pick(r, keys))
		return in
	}
	p := []byte{fb}
	if r.chance(35) {
		p = []byte{fb, 0x01}
	}
	in.Q.Prefix = hx(p)
	in.Q.Bw = r.chance(50)
	if r.chance(30) {
		in.Q.Start = hx(pick(r, [][]byte{{0x01}, {0x01, 0x00}, {0x00}, {0x02}})[len(p)-1:])
	}
	return in
}
