package main

// VM reuse (c13, c12): the node executes all transactions of a block on ONE vm.VM, calling Reset() between them.
// Every script under test is therefore run a second time after Reset() on a VM that has just executed one or two
// DIFFERENT scripts ("predecessors") chosen to end in every way (HALT with values on the stack and in slots, unhandled
// THROW, faults inside TRY / CATCH / FINALLY, ABORT, out of gas, invocation-depth and stack-size faults, a fault in a nested
// CALL with slots and compounds); state, stack, gas, number of instructions and a trace (offset, opcode, item counter,
// gas in pico, stack and invocation depth before every instruction) must equal those of the run on a fresh VM, which is
// compared with the model: init_state is the specification of what Reset + SetPriceGetter + SetGasLimit + LoadScript
// must re-establish.

import (
	"fmt"
	"hash/fnv"

	"github.com/nspcc-dev/neo-go/pkg/core/fee"
	"github.com/nspcc-dev/neo-go/pkg/smartcontract/trigger"
	"github.com/nspcc-dev/neo-go/pkg/util"
	"github.com/nspcc-dev/neo-go/pkg/vm"
	"github.com/nspcc-dev/neo-go/pkg/vm/opcode"
	"github.com/nspcc-dev/neo-go/pkg/vm/vmstate"
)

type c13Pred struct {
	tag         string
	script      []byte
	base, limit int64
}

var c13PredList []c13Pred

// c13Preds: the predecessor scripts (deterministic)
func c13Preds() []c13Pred {
	if c13PredList != nil {
		return c13PredList
	}
	var out []c13Pred
	add := func(tag string, base, limit int64, a *c13Asm) {
		out = append(out, c13Pred{tag: tag, script: a.b, base: base, limit: limit})
	}
	const big = 50000000
	O := func() *c13Asm { return &c13Asm{} }
	// HALT with values left on the stack and in static slots (one of them a compound)
	add("halt-values", 1, big, O().op(opcode.INITSSLOT, 2).op(opcode.PUSH5).op(opcode.STSFLD0).
		op(opcode.NEWARRAY0).op(opcode.DUP).op(opcode.PUSH1).op(opcode.APPEND).op(opcode.STSFLD1).
		op(opcode.PUSH1).op(opcode.PUSH2).op(opcode.NEWMAP))
	// HALT by the implicit RET while a try block is still open, after a nested call
	add("halt-open-try", 1, big, O().op(opcode.TRY, 6, 0).op(opcode.CALL, 4).op(opcode.PUSH3).op(opcode.NOP).op(opcode.RET))
	// unhandled THROW of a primitive / of a cyclic compound
	add("throw", 1, big, O().op(opcode.PUSH7).op(opcode.THROW))
	add("throw-cyclic", 1, big, O().op(opcode.NEWARRAY0).op(opcode.DUP).op(opcode.DUP).op(opcode.APPEND).op(opcode.THROW))
	// FAULT (division by zero, not catchable) inside the try block, the catch block, the finally block with the exception
	// pending, the finally block after a normal ENDTRY
	add("fault-in-try", 1, big, O().op(opcode.TRY, 6, 0).op(opcode.PUSH1).op(opcode.PUSH0).op(opcode.DIV).
		op(opcode.PUSH2).op(opcode.ENDTRY, 2).op(opcode.RET))
	add("fault-in-catch", 1, big, O().op(opcode.TRY, 5, 0).op(opcode.PUSH1).op(opcode.THROW).
		op(opcode.PUSH1).op(opcode.PUSH0).op(opcode.DIV))
	add("fault-in-finally-pending", 1, big, O().op(opcode.TRY, 0, 5).op(opcode.NEWMAP).op(opcode.THROW).
		op(opcode.PUSH1).op(opcode.PUSH0).op(opcode.DIV).op(opcode.ENDFINALLY))
	add("fault-in-finally-normal", 1, big, O().op(opcode.TRY, 0, 5).op(opcode.ENDTRY, 6).
		op(opcode.PUSH1).op(opcode.PUSH0).op(opcode.DIV).op(opcode.ENDFINALLY).op(opcode.RET))
	// THROW inside a catch block, nothing above: unhandled, with one try context in its catch state
	add("throw-in-catch", 1, big, O().op(opcode.TRY, 5, 0).op(opcode.PUSH1).op(opcode.THROW).op(opcode.PUSH2).op(opcode.THROW))
	// exception pending in a finally block that ends the script by RET (HALT with the register set?)
	add("ret-in-finally-pending", 1, big, O().op(opcode.TRY, 0, 5).op(opcode.PUSH1).op(opcode.THROW).op(opcode.PUSH4).op(opcode.RET))
	// ABORT with a compound in a slot
	add("abort", 1, big, O().op(opcode.INITSSLOT, 1).op(opcode.NEWMAP).op(opcode.STSFLD0).op(opcode.PUSH1).op(opcode.ABORT))
	// out of gas: in a loop; in a nested call inside a try with slots
	add("out-of-gas", 300000, 90, O().op(opcode.PUSH1).op(opcode.DROP).op(opcode.JMP, 0xfe))
	add("out-of-gas-nested", 300000, 20000, O().op(opcode.INITSSLOT, 1).op(opcode.NEWARRAY0).op(opcode.STSFLD0).
		op(opcode.TRY, 0, 9).op(opcode.CALL, 4).op(opcode.ENDTRY, 5).op(opcode.INITSLOT, 1, 0).op(opcode.NEWMAP).op(opcode.STLOC0).op(opcode.JMP, 0))
	// invocation depth limit, every context with a compound in its local slot
	add("depth-limit", 1, big, O().op(opcode.INITSSLOT, 1).op(opcode.NEWARRAY0).op(opcode.STSFLD0).
		op(opcode.INITSLOT, 1, 0).op(opcode.NEWMAP).op(opcode.STLOC0).op(opcode.CALL, 0xfb))
	// stack size limit: one array growing; plain pushes
	add("stack-limit-array", 1, big, O().op(opcode.NEWARRAY0).op(opcode.DUP).op(opcode.PUSH1).op(opcode.APPEND).op(opcode.JMP, 0xfd))
	add("stack-limit-push", 1, big, O().op(opcode.PUSH1).op(opcode.JMP, 0xff))
	// fault in the middle of a nested CALL: static slot, arguments and locals with compounds, an open try in the caller
	add("fault-nested", 1, big, O().
		op(opcode.INITSSLOT, 1).op(opcode.NEWARRAY0).op(opcode.STSFLD0).                                                        // 0..3
		op(opcode.NEWSTRUCT0).op(opcode.CALL, 3).op(opcode.RET).                                                                // 4: 5: CALL->8  7: RET
		op(opcode.INITSLOT, 1, 1).op(opcode.NEWMAP).op(opcode.STLOC0).                                                          // 8..12
		op(opcode.TRY, 0, 8).op(opcode.NEWARRAY0).op(opcode.CALL, 6).op(opcode.ENDTRY, 3).op(opcode.ENDFINALLY).op(opcode.RET). // 13: TRY fin->21; 16; 17: CALL->23; 19: ENDTRY->22; 21: ENDFINALLY; 22: RET
		op(opcode.INITSLOT, 2, 1).op(opcode.NEWARRAY0).op(opcode.STLOC1).op(opcode.PUSH1).op(opcode.PUSH0).op(opcode.DIV))      // 23..
	c13PredList = out
	return out
}

func c13Hash(b []byte) uint64 {
	h := fnv.New64a()
	h.Write(b)
	return h.Sum64()
}

const c13RefsMax = 400

// c13ExecOn runs the script to completion on v (price getter and gas limit already set).
func c13ExecOn(v *vm.VM, script []byte) c13Result { return c13ExecBounded(v, script, 0) }

const c13StepBoundMsg = "verif: step bound exceeded"

// c13ExecBounded: the same with a bound on the number of instructions (0 = none): an execution that does not stop is
// reported (Panic = c13StepBoundMsg) instead of hanging the check
func c13ExecBounded(v *vm.VM, script []byte, bound int) c13Result {
	var res c13Result
	h := fnv.New64a()
	v.SetOnExecHook(func(_ util.Uint160, off int, op opcode.Opcode) {
		g, ok := v.VerifGasPico()
		try := 0
		if c := v.Context(); c != nil {
			try = len(c.VerifTryStack())
		}
		fmt.Fprintf(h, "%d,%d,%d,%d,%v,%d,%d,%d;", off, op, v.VerifRefs(), g, ok, v.Estack().Len(), len(v.Istack()), try)
		if len(res.Refs) < c13RefsMax {
			res.Refs = append(res.Refs, v.VerifRefs())
		}
		res.Steps++
		if bound > 0 && res.Steps > bound {
			panic(c13StepBoundMsg)
		}
	})
	var err error
	res.Panic = catch(func() {
		v.LoadScript(script) // (panics when the invocation stack was not emptied by Reset)
		err = v.Run()
	})
	if err != nil {
		res.ErrStr = err.Error()
		if len(res.ErrStr) > 120 {
			res.ErrStr = res.ErrStr[:120]
		}
	}
	res.Gas = v.GasConsumed()
	if res.Panic == "" && v.State() == vmstate.Halt {
		res.Halt = true
		res.Stack = c13SerStack(v.Estack())
	}
	res.Trace = h.Sum64()
	return res
}

// c13PickPreds: one or two predecessors; forced > 0 selects predecessor forced-1 alone
func c13PickPreds(script []byte, forced int) []c13Pred {
	ps := c13Preds()
	if forced > 0 {
		return []c13Pred{ps[(forced-1)%len(ps)]}
	}
	h := c13Hash(script)
	out := []c13Pred{ps[h%uint64(len(ps))]}
	if (h>>20)&1 == 1 {
		out = append([]c13Pred{ps[(h>>24)%uint64(len(ps))]}, out...)
	}
	return out
}

// c13ExecReused: the predecessors run on a VM, each followed by Reset(); then the script under test, as the node does it
func c13ExecReused(script []byte, base, limitDatoshi int64, preds []c13Pred) (c13Result, string) {
	v := vm.New()
	tags := ""
	for _, p := range preds {
		pb := p.base
		v.SetPriceGetter(func(op opcode.Opcode, _ []byte) int64 { return fee.Opcode(pb, op) })
		v.SetGasLimit(p.limit)
		if pn := catch(func() {
			v.LoadScript(p.script)
			_ = v.Run()
		}); pn != "" {
			return c13Result{Panic: "predecessor " + p.tag + ": " + pn}, p.tag
		}
		tags += p.tag + " "
		v.Reset(trigger.Application)
	}
	v.SetPriceGetter(func(op opcode.Opcode, _ []byte) int64 { return fee.Opcode(base, op) })
	v.SetGasLimit(limitDatoshi)
	return c13ExecOn(v, script), tags
}

// c13SameRun: the observable equality of two executions
func c13SameRun(a, b c13Result) bool {
	if a.Halt != b.Halt || a.Gas != b.Gas || a.Stack != b.Stack || a.Steps != b.Steps || a.Trace != b.Trace || len(a.Refs) != len(b.Refs) {
		return false
	}
	for i := range a.Refs {
		if a.Refs[i] != b.Refs[i] {
			return false
		}
	}
	return true
}

// c13PredOutcomes: how every predecessor ends on a fresh VM (recorded in the evidence)
func c13PredOutcomes() string {
	s := ""
	for _, p := range c13Preds() {
		v := c13NewVM(p.base, p.limit)
		r := c13ExecOn(v, p.script)
		o := "FAULT"
		if r.Halt {
			o = "HALT"
		}
		s += fmt.Sprintf("%s=%s/%d steps/refs %d; ", p.tag, o, r.Steps, v.VerifRefs())
	}
	return s
}

// c13ResetProbes: scripts whose outcome depends on a register Reset has to clear
func c13ResetProbes() []struct {
	tag         string
	a           *c13Asm
	base, limit int64
} {
	type pr = struct {
		tag         string
		a           *c13Asm
		base, limit int64
	}
	O := func() *c13Asm { return &c13Asm{} }
	var out []pr
	// ENDFINALLY on the normal path (re-throws if an exception is pending)
	out = append(out, pr{"endfinally", O().op(opcode.TRY, 0, 5).op(opcode.ENDTRY, 5).op(opcode.PUSH7).op(opcode.ENDFINALLY).op(opcode.NOP).op(opcode.PUSH8), 1, 1000})
	// THROW caught, ENDTRY
	out = append(out, pr{"catch", O().op(opcode.TRY, 6, 0).op(opcode.PUSH1).op(opcode.THROW).op(opcode.NOP).op(opcode.PUSH2).op(opcode.ENDTRY, 2).op(opcode.PUSH3), 1, 1000})
	// nested call with slots, RET, unloading
	out = append(out, pr{"call-slots", O().op(opcode.INITSSLOT, 1).op(opcode.PUSH1).op(opcode.STSFLD0).op(opcode.CALL, 4).op(opcode.LDSFLD0).op(opcode.RET).
		op(opcode.INITSLOT, 1, 0).op(opcode.NEWARRAY0).op(opcode.STLOC0).op(opcode.LDLOC0).op(opcode.SIZE).op(opcode.RET), 1, 1000})
	// what is on the stack and how deep
	out = append(out, pr{"depth", O().op(opcode.DEPTH).op(opcode.DEPTH), 1, 1000})
	// just inside the item limit (2041 references)
	out = append(out, pr{"near-stack-limit", O().i(2040).op(opcode.NEWARRAY).op(opcode.DEPTH), 1, 100000})
	// the gas limit met exactly (10 units)
	out = append(out, pr{"gas-exact", O().op(opcode.PUSH1).op(opcode.PUSH1).op(opcode.ADD), 10000, 10})
	// recursion to one below the invocation limit and back
	out = append(out, pr{"near-depth-limit", O().i(1022).op(opcode.CALL, 3).op(opcode.RET).
		op(opcode.DUP).op(opcode.PUSH0).op(opcode.JMPEQ, 6).op(opcode.DEC).op(opcode.CALL, 0xfa).op(opcode.RET), 1, 10000000})
	return out
}
