// Command nghx is the Go side of the /verif machinery: it drives the real
// neo-go implementation (built from /repo's working tree) and prints what it
// observed as Coq terms (cases.v) and JSON metadata, one sub-command per property.
package main

import (
	"fmt"
	"os"
)

type subcmd struct {
	name string
	run  func(args []string) error
}

var subcmds []subcmd

func register(name string, run func(args []string) error) {
	subcmds = append(subcmds, subcmd{name, run})
}

func main() {
	if len(os.Args) < 2 {
		fmt.Fprintln(os.Stderr, "usage: nghx <subcommand> [flags]")
		for _, s := range subcmds {
			fmt.Fprintln(os.Stderr, "  ", s.name)
		}
		os.Exit(2)
	}
	for _, s := range subcmds {
		if s.name == os.Args[1] {
			if err := s.run(os.Args[2:]); err != nil {
				fmt.Fprintln(os.Stderr, "nghx:", err)
				os.Exit(3)
			}
			return
		}
	}
	fmt.Fprintln(os.Stderr, "unknown subcommand", os.Args[1])
	os.Exit(2)
}
