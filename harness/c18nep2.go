package main

// C18, sixth round: text inputs beyond ASCII.
//
//   nep2       NEP-2 with passphrases outside ASCII: precomposed / decomposed forms (NFC-equal: MUST decrypt each
//              other's keys), compatibility characters (NFC-distinct, NFKC-equal: must NOT, and the right one MUST),
//              empty, very long, embedded NUL, invalid UTF-8. NEP2Encrypt is compared byte for byte with the NEP-2
//              definition evaluated independently here (NFC of golang.org/x/text - the specification's own function -,
//              golang.org/x/crypto/scrypt, crypto/aes, crypto/sha256, mr-tron/base58); the wallet-level paths too.
//   nep2frame  damaged and look-alike NEP-2 strings: what NEP2Decrypt takes as an envelope = the model's nep2_unframe.
//   strsweep   every string-taking decoder of the property with look-alikes of VALID strings outside ASCII (full-width,
//              Arabic-Indic / Devanagari / mathematical digits, Cyrillic homoglyphs, combining marks, BOM, zero-width
//              space, NUL, invalid UTF-8): the alphabets are ASCII, the bytes are taken verbatim: rejected, never folded.

import (
	"bytes"
	"crypto/aes"
	"crypto/sha256"
	"encoding/json"
	"fmt"
	"strings"
	"unicode/utf8"

	mrbase58 "github.com/mr-tron/base58"
	"github.com/nspcc-dev/neo-go/pkg/crypto/keys"
	"github.com/nspcc-dev/neo-go/pkg/encoding/address"
	"github.com/nspcc-dev/neo-go/pkg/encoding/base58"
	"github.com/nspcc-dev/neo-go/pkg/encoding/fixedn"
	"github.com/nspcc-dev/neo-go/pkg/util"
	"github.com/nspcc-dev/neo-go/pkg/wallet"
	xscrypt "golang.org/x/crypto/scrypt"
	"golang.org/x/text/unicode/norm"
)

// ---- the NEP-2 definition, evaluated without any neo-go code except the key's address text ----

func c18Sha256(b []byte) []byte { h := sha256.Sum256(b); return h[:] }

func c18Sha256d(b []byte) []byte {
	h1 := sha256.Sum256(b)
	h2 := sha256.Sum256(h1[:])
	return h2[:]
}

// passNorm is the passphrase ALREADY normalised (NFC); returns the NEP-2 string and the 32 encrypted bytes
func c18RefNEP2(priv []byte, addr string, passNorm []byte, p keys.ScryptParams) (string, []byte, error) {
	ah := c18Sha256d([]byte(addr))[:4]
	dk, err := xscrypt.Key(passNorm, ah, p.N, p.R, p.P, 64)
	if err != nil {
		return "", nil, err
	}
	x := make([]byte, 32)
	for i := range x {
		x[i] = priv[i] ^ dk[i]
	}
	blk, err := aes.NewCipher(dk[32:])
	if err != nil {
		return "", nil, err
	}
	body := make([]byte, 32)
	blk.Encrypt(body[:16], x[:16]) // ECB: block by block
	blk.Encrypt(body[16:], x[16:])
	payload := append([]byte{0x01, 0x42, 0xe0}, ah...)
	payload = append(payload, body...)
	full := append(bytes.Clone(payload), c18Sha256d(payload)[:4]...)
	return mrbase58.Encode(full), body, nil
}

// scrypt takes the passphrase as the key of HMAC-SHA256 (PBKDF2, RFC 7914 / RFC 2104): a key of up to 64 bytes is padded
// with zero bytes to 64, a longer one is replaced by its SHA-256 first. Two passphrases are therefore THE SAME for
// scrypt - whatever implements it - exactly when this key is the same: "a" and "a\x00" are, and so are a passphrase
// of more than 64 bytes and the 32 bytes of its SHA-256. This is part of the definition of NEP-2's KDF, not of neo-go.
func c18HmacKey(pass []byte) []byte {
	k := make([]byte, 64)
	if len(pass) > 64 {
		h := sha256.Sum256(pass)
		copy(k, h[:])
	} else {
		copy(k, pass)
	}
	return k
}

// ---- passphrase material ----

// an atom is one piece of text in several spellings; spellings with the same class number are canonically equivalent
// (NFC-equal), spellings with different class numbers are not (most are compatibility-equivalent: NFKC-equal). The
// classes are stated from the Unicode data and checked against the oracle once (c18AtomsChecked).
type c18Atom struct {
	forms []string
	class []int
}

var c18Atoms = []c18Atom{
	{[]string{"a"}, []int{0}}, {[]string{"Pass"}, []int{0}}, {[]string{"w0rd!"}, []int{0}},
	{[]string{"\u043f\u0430\u0440\u043e\u043b\u044c"}, []int{0}}, {[]string{"\u5bc6\u7801"}, []int{0}},
	// (b) precomposed / decomposed, singletons (Angstrom, Ohm), reordering of marks, composition exclusion, Hangul
	{[]string{"\u00e9", "e\u0301"}, []int{0, 0}},
	{[]string{"\u00c5", "A\u030a", "\u212b"}, []int{0, 0, 0}},
	{[]string{"\u03a9", "\u2126"}, []int{0, 0}},
	{[]string{"\uac00", "\u1100\u1161"}, []int{0, 0}},
	{[]string{"\u1ec7", "e\u0323\u0302", "\u1eb9\u0302", "e\u0302\u0323", "\u00ea\u0323"}, []int{0, 0, 0, 0, 0}},
	{[]string{"q\u0307\u0323", "q\u0323\u0307"}, []int{0, 0}},
	{[]string{"\u0958", "\u0915\u093c"}, []int{0, 0}},
	// (c) compatibility characters: ligature, full width, superscript / full-width / Arabic-Indic / mathematical digit,
	// Roman numeral, circled digit, half-width katakana, no-break and ideographic space, long s, ellipsis, square kg
	{[]string{"fi", "\ufb01"}, []int{0, 1}},
	{[]string{"A", "\uff21"}, []int{0, 1}},
	{[]string{"2", "\u00b2", "\uff12", "\u0662", "\U0001d7d0"}, []int{0, 1, 2, 3, 4}},
	{[]string{"IV", "\u2163"}, []int{0, 1}},
	{[]string{"1", "\u2460"}, []int{0, 1}},
	{[]string{"\u30ab", "\uff76"}, []int{0, 1}},
	{[]string{" ", "\u00a0", "\u3000"}, []int{0, 1, 2}},
	{[]string{"s", "\u017f"}, []int{0, 1}},
	{[]string{"...", "\u2026"}, []int{0, 1}},
	{[]string{"kg", "\u338f"}, []int{0, 1}},
	// both at once
	{[]string{"\u30ac", "\u30ab\u3099", "\uff76\uff9e"}, []int{0, 0, 1}},
	{[]string{"\u01c6", "d\u017e", "dz\u030c"}, []int{0, 1, 1}},
	{[]string{"\u1e9b\u0323", "\u017f\u0323\u0307", "\u017f\u0307\u0323", "\u1e69", "s\u0323\u0307"}, []int{0, 0, 0, 1, 1}},
	// (d) NUL, invalid UTF-8 (lone continuation / lead bytes, a surrogate, an overlong form, a cut combining mark)
	{[]string{"\x00"}, []int{0}}, {[]string{"\xff"}, []int{0}}, {[]string{"\xc3"}, []int{0}}, {[]string{"\xed\xa0\x80"}, []int{0}},
	{[]string{"\xc0\xaf", "/"}, []int{0, 1}}, {[]string{"e\xcc", "e"}, []int{0, 1}},
}

var c18AtomsChecked = false

// the hand-stated classes against the oracle (a disagreement is an error of this harness or of the oracle, never of neo-go)
func c18CheckAtoms() {
	if c18AtomsChecked {
		return
	}
	c18AtomsChecked = true
	for _, a := range c18Atoms {
		for i := range a.forms {
			for j := range a.forms {
				eq := bytes.Equal(norm.NFC.Bytes([]byte(a.forms[i])), norm.NFC.Bytes([]byte(a.forms[j])))
				if eq != (a.class[i] == a.class[j]) {
					panic(fmt.Sprintf("harness: the stated NFC classes of %q / %q disagree with x/text", a.forms[i], a.forms[j]))
				}
			}
		}
	}
}

// p and q from the same atoms; how: 0 identical, 1 canonically equivalent spellings, 2 some atom in a spelling of
// another class, 3 unrelated edits
func c18GenPassPair(r *rng, how int) ([]byte, []byte) {
	n := pick(r, []int{0, 1, 1, 2, 3, 4})
	if how != 0 && n == 0 {
		n = 1
	}
	var p, q []byte
	changed := false
	for i := 0; i < n; i++ {
		a := pick(r, c18Atoms)
		if how == 1 || how == 2 {
			for a.forms == nil || len(a.forms) < 2 {
				a = pick(r, c18Atoms)
			}
		}
		fi := r.intn(len(a.forms))
		fj := fi
		switch how {
		case 1:
			var same []int
			for j := range a.forms {
				if a.class[j] == a.class[fi] {
					same = append(same, j)
				}
			}
			fj = pick(r, same)
		case 2:
			var other []int
			for j := range a.forms {
				if a.class[j] != a.class[fi] {
					other = append(other, j)
				}
			}
			if len(other) > 0 && (!changed || r.bool()) {
				fj = pick(r, other)
				changed = true
			}
		}
		p = append(p, a.forms[fi]...)
		q = append(q, a.forms[fj]...)
	}
	if how == 3 {
		switch r.intn(5) {
		case 0:
			q = append(q, 'x')
		case 1:
			q = append([]byte{' '}, q...)
		case 2:
			q = bytes.ToUpper(q)
			if bytes.Equal(p, q) {
				q = append(q, 0)
			}
		case 3:
			q = q[:len(q)-1]
		default:
			q = append(q, "\u0301"...) // one more combining mark at the end
		}
	}
	return p, q
}

func c18Nep2Key(seed uint64) *keys.PrivateKey {
	r := newRng(seed ^ 0x6e657032)
	for {
		if k, err := keys.NewPrivateKeyFromBytes(r.bytes(32)); err == nil {
			return k
		}
	}
}

func c18Nep2Params(mode int) keys.ScryptParams {
	if mode&1 == 1 {
		return keys.NEP2ScryptParams()
	}
	return keys.ScryptParams{N: 2, R: 1, P: 1}
}

// ---- the laws ----

func c18Nep2(co *caseOut, in c18xInput) {
	c18CheckAtoms()
	bad := func(note string, impl any) { co.violation("nep2", note, in, impl) }
	priv := c18Nep2Key(in.Seed)
	kb := priv.Bytes()
	p, q := unhx(in.P), unhx(in.Q)
	params := c18Nep2Params(in.Mode)
	np, nq := norm.NFC.Bytes(p), norm.NFC.Bytes(q)
	// "the same passphrase" for NEP-2: the NFC forms are the same HMAC key (see c18HmacKey)
	same := bytes.Equal(c18HmacKey(np), c18HmacKey(nq))
	bucket := "different"
	switch {
	case bytes.Equal(p, q):
		bucket = "identical"
	case bytes.Equal(np, nq):
		bucket = "nfc-equal"
	case same:
		bucket = "hmac-equal"
	case bytes.Equal(norm.NFKC.Bytes(p), norm.NFKC.Bytes(q)):
		bucket = "nfkc-equal-only"
	}
	if !utf8.Valid(p) || !utf8.Valid(q) {
		bucket += "-invalid-utf8"
	} else if len(p) > 1000 {
		bucket += "-long"
	}
	gives := func(e, pass string) (bool, string) { // does pass give the key back from e
		k, err := keys.NEP2Decrypt(e, pass, params)
		if err != nil {
			return false, err.Error()
		}
		if !bytes.Equal(k.Bytes(), kb) {
			return false, "ANOTHER KEY " + hx(k.Bytes())
		}
		return true, ""
	}
	e, err := keys.NEP2Encrypt(priv, string(p), params)
	if err != nil {
		bad("NEP2Encrypt fails", err.Error())
		return
	}
	ref, body, rerr := c18RefNEP2(kb, priv.Address(), np, params)
	if rerr != nil {
		panic("harness: reference NEP-2 fails: " + rerr.Error())
	}
	if e != ref {
		bad("NEP2Encrypt differs from the NEP-2 definition evaluated independently (NFC of the passphrase, scrypt, AES-256-ECB of key XOR derived half, 01 42 e0 ++ address hash ++ body under Base58Check)", map[string]string{"impl": e, "ref": ref})
	}
	std := in.Mode&1 == 1 // the standard scrypt parameters cost 0.3 s per derivation: the laws that tell the mutants apart only
	if !std {
		if ok, why := gives(e, string(p)); !ok {
			bad("NEP-2: the passphrase a key was encrypted with does not decrypt it", why)
		}
	}
	if ok, why := gives(ref, string(p)); !ok {
		bad("NEP-2: NEP2Decrypt does not open an envelope built by the NEP-2 definition (independent evaluation) with the right passphrase", why)
	}
	if ok, why := gives(e, string(q)); ok != same {
		if same {
			bad("NEP-2: a passphrase that is the same text (NFC-equal, other spelling; or the same HMAC key) does not decrypt the key", map[string]string{"p": hx(p), "q": hx(q), "err": why})
		} else {
			bad("NEP-2: a DIFFERENT passphrase (not NFC-equal) decrypts the key", map[string]string{"p": hx(p), "q": hx(q), "class": bucket})
		}
	}
	if std {
		co.add("nep2", bucket+"-std", !bytes.Equal(p, q) && bucket != "different", in, e,
			fmt.Sprintf("CNep2Frame %s %s %s", coqStrZ(priv.Address()), coqBytes(body), coqStrZ(e)))
		return
	}
	e2, err := keys.NEP2Encrypt(priv, string(q), params)
	if err != nil {
		bad("NEP2Encrypt fails", err.Error())
		return
	}
	if (e2 == e) != same {
		bad("NEP-2: encryption is a function of the NFC form of the passphrase: equal envelopes <=> the same passphrase (NFC, then HMAC key)", map[string]string{"p": hx(p), "q": hx(q), "e(p)": e, "e(q)": e2})
	}
	if ok, why := gives(e2, string(p)); ok != same {
		bad("NEP-2 (other direction): decrypt(encrypt(k, q), p) = k must hold exactly when p and q are the same passphrase (NFC, then HMAC key)", map[string]string{"p": hx(p), "q": hx(q), "err": why})
	}
	// wallet-level paths
	acc := wallet.NewAccountFromPrivateKey(priv)
	if err := acc.Encrypt(string(p), params); err != nil || acc.EncryptedWIF != e {
		bad("wallet.Account.Encrypt does not store NEP2Encrypt of the key", acc.EncryptedWIF)
	}
	a2, err := wallet.NewAccountFromEncryptedWIF(e, string(q), params)
	if (err == nil) != same {
		bad("wallet.NewAccountFromEncryptedWIF: must succeed exactly when p and q are the same passphrase (NFC, then HMAC key)", fmt.Sprint(err))
	} else if err == nil && (!bytes.Equal(a2.PrivateKey().Bytes(), kb) || a2.Address != priv.Address() || a2.EncryptedWIF != e) {
		bad("wallet.NewAccountFromEncryptedWIF returns another account", a2.Address)
	}
	if j, err := json.Marshal(acc); err != nil {
		bad("wallet.Account does not marshal", err.Error())
	} else {
		a3 := new(wallet.Account)
		if err := json.Unmarshal(j, a3); err != nil {
			bad("wallet.Account does not unmarshal from its own JSON", err.Error())
		} else {
			derr := a3.Decrypt(string(q), params)
			if (derr == nil) != same {
				bad("wallet.Account.Decrypt (account read back from JSON): must succeed exactly when p and q are the same passphrase (NFC, then HMAC key)", fmt.Sprint(derr))
			} else if derr == nil && !bytes.Equal(a3.PrivateKey().Bytes(), kb) {
				bad("wallet.Account.Decrypt gives another key", nil)
			}
			if a3.Decrypt(string(p), params) != nil {
				bad("wallet.Account.Decrypt (account read back from JSON) refuses the passphrase it was encrypted with", nil)
			}
		}
	}
	// (the frame costs two double SHA-256 inside Coq: one case in three is compared with the model, every case with the oracle)
	term := "CBigEnc 0 []"
	if in.Seed%3 == 0 || in.Mode&1 == 1 {
		term = fmt.Sprintf("CNep2Frame %s %s %s", coqStrZ(priv.Address()), coqBytes(body), coqStrZ(e))
	}
	co.add("nep2", bucket, !bytes.Equal(p, q) && bucket != "different", in, e, term)
}

// the NEP-2 vectors of the repository (internal/keytestcases: key, passphrase, NEP-2 string as produced by the N3
// reference implementations; the vectors inside the NEP-2 text itself are for Neo 2 addresses - another address version
// and verification script, hence another address hash - and cannot be opened by N3 code), standard scrypt parameters
var c18Nep2Vectors = []struct{ priv, pass, enc string }{
	{"7d128a6d096f0c14c3a25a2b0c41cf79661bfcb4a8cc95aaaea28bde4d732344", "city of zion", "6PYUUUFei9PBBfVkSn8q7hFCnewWFRBKPxcn6Kz6Bmk3FqWyLyuTQE2XFH"},
	{"9ab7e154840daca3a2efadaf0df93cd3a5b51768c632f5433f86909d9b994a69", "\u6211\u7684\u5bc6\u7801", "6PYUmBuLbdXdnybyNeafUJUrVhoBRZpjHACdY9K2VCNzD5tuX5tXgr9fur"},
	{"3edee7036b8fd9cef91de47386b191dd76db2888a553e7736bb02808932a915b", "MyL33tP@33w0rd", "6PYLQ9oCoEWCfuuHkq6xH4tYbi4Pyv9HYUU8WGkFVXtoczwTbitMjypkma"},
}

func c18Nep2Vector(co *caseOut, in c18xInput) {
	v := c18Nep2Vectors[in.N%len(c18Nep2Vectors)]
	bad := func(note string, impl any) { co.violation("nep2vec", note, in, impl) }
	params := keys.NEP2ScryptParams()
	priv, err := keys.NewPrivateKeyFromHex(v.priv)
	if err != nil {
		panic(err)
	}
	// (mode 1: decryption only - each derivation with the standard parameters costs 0.3 s)
	k, err := keys.NEP2Decrypt(v.enc, v.pass, params)
	if err != nil || !bytes.Equal(k.Bytes(), priv.Bytes()) {
		bad("NEP2Decrypt does not open the published vector", fmt.Sprint(err))
	}
	if in.Mode == 1 {
		co.hist["nep2vec/decrypt-only"]++
		return
	}
	e, err := keys.NEP2Encrypt(priv, v.pass, params)
	if err != nil || e != v.enc {
		bad("NEP2Encrypt does not reproduce the published vector", e)
	}
	ref, body, rerr := c18RefNEP2(priv.Bytes(), priv.Address(), norm.NFC.Bytes([]byte(v.pass)), params)
	if rerr != nil || ref != v.enc {
		panic("harness: the independent NEP-2 evaluation does not reproduce the published vector " + v.enc + ": " + ref)
	}
	co.add("nep2vec", "ok", true, in, e, fmt.Sprintf("CNep2Frame %s %s %s", coqStrZ(priv.Address()), coqBytes(body), coqStrZ(e)))
}

// ---- what NEP2Decrypt takes as an envelope ----

func c18Nep2Frame(co *caseOut, in c18xInput) {
	s := *in.S
	_, cerr := base58.CheckDecode(s)
	_, err := keys.NEP2Decrypt(s, "x", keys.ScryptParams{N: 2, R: 1, P: 1})
	framed := cerr == nil && (err == nil || !(strings.HasPrefix(err.Error(), "invalid length") || strings.HasPrefix(err.Error(), "invalid byte sequence")))
	if cerr != nil && err == nil {
		co.violation("nep2frame", "NEP2Decrypt accepts a string that is not Base58Check", in, nil)
	}
	if err == nil && !c18ASCII(s) {
		co.violation("nep2frame", "NEP2Decrypt accepts a key string with bytes outside ASCII", in, nil)
	}
	tag := "rejected"
	if framed {
		tag = "framed"
	}
	co.add("nep2frame", tag, true, in, fmt.Sprint(err), fmt.Sprintf("CNep2Unframe %s %v", coqStrZ(s), framed))
}

func c18ASCII(s string) bool {
	for i := 0; i < len(s); i++ {
		if s[i] >= 0x80 || s[i] < 0x20 {
			return false
		}
	}
	return true
}

// ---- look-alikes of valid strings ----

var c18Digits = []rune{0x0660, 0x06f0, 0x0966, 0xff10, 0x1d7ce, 0x1d7d8, 0x0e50, 0x2080}
var c18Homoglyph = map[byte]rune{'a': 0x0430, 'c': 0x0441, 'e': 0x0435, 'o': 0x043e, 'p': 0x0440, 'x': 0x0445, 'A': 0x0391, 'B': 0x0392, 'E': 0x0395, 'K': 0x212a, 'N': 0x039d,
	'-': 0x2212, '.': 0xff0e, '+': 0xff0b, 'f': 0x1d41f, 'b': 0xff42, 'd': 0x217e, 'L': 0x216c, 'M': 0x216f, 'i': 0x2170, 'm': 0x217f, 'k': 0x043a}
var c18Invisible = []string{"\ufeff", "\u200b", "\u00a0", "\u0301", "\x00", "\xff", "\u2028", "\u200d", "\u00ad", "\xc2"}

// one look-alike of the valid ASCII string s that contains at least one byte outside printable ASCII
func c18LookAlike(r *rng, s string) string {
	for try := 0; try < 20; try++ {
		var out strings.Builder
		how := r.intn(7)
		at := 0
		if len(s) > 0 {
			at = r.intn(len(s))
		}
		set := pick(r, c18Digits)
		for i := 0; i < len(s); i++ {
			c := s[i]
			one := how%2 == 1 // odd: a single position, even: everywhere
			here := !one || i == at
			switch {
			case how <= 1 && here && c > 0x20 && c < 0x7f:
				out.WriteRune(0xff00 + rune(c-0x20)) // full-width form
			case (how == 2 || how == 3) && here && c >= '0' && c <= '9':
				out.WriteRune(set + rune(c-'0'))
			case (how == 4 || how == 5) && here && c18Homoglyph[c] != 0:
				out.WriteRune(c18Homoglyph[c])
			default:
				out.WriteByte(c)
			}
			if how == 6 && i == at {
				out.WriteString(pick(r, c18Invisible))
			}
		}
		if how == 6 && len(s) == 0 {
			out.WriteString(pick(r, c18Invisible))
		}
		if t := out.String(); !c18ASCII(t) {
			if r.chance(15) {
				t = pick(r, c18Invisible) + t
			}
			return t
		}
	}
	return s + pick(r, c18Invisible)
}

// decoders of the property that take text; each returns whether the text was ACCEPTED
var c18StrDecoders = []struct {
	name  string
	valid func(r *rng) string
	dec   func(s string) bool
}{
	{"address.StringToUint160", func(r *rng) string { return address.Uint160ToString(c18U160(r)) },
		func(s string) bool { _, err := address.StringToUint160(s); return err == nil }},
	{"keys.NewPrivateKeyFromWIF", func(r *rng) string { return c18Nep2Key(r.next()).WIF() },
		func(s string) bool { _, err := keys.NewPrivateKeyFromWIF(s); return err == nil }},
	{"keys.WIFDecode", func(r *rng) string { return c18Nep2Key(r.next()).WIF() },
		func(s string) bool { _, err := keys.WIFDecode(s, 0); return err == nil }},
	{"keys.NEP2Decrypt (key string)", func(r *rng) string {
		e, _ := keys.NEP2Encrypt(c18Nep2Key(7), "p", keys.ScryptParams{N: 2, R: 1, P: 1})
		return e
	}, func(s string) bool {
		_, err := keys.NEP2Decrypt(s, "p", keys.ScryptParams{N: 2, R: 1, P: 1})
		return err == nil
	}},
	{"keys.NewPublicKeyFromString", func(r *rng) string { return c18Nep2Key(r.next()).PublicKey().StringCompressed() },
		func(s string) bool { _, err := keys.NewPublicKeyFromString(s); return err == nil }},
	{"keys.PublicKey.UnmarshalJSON", func(r *rng) string { return c18Nep2Key(r.next()).PublicKey().StringCompressed() },
		func(s string) bool { j, _ := json.Marshal(s); return json.Unmarshal(j, new(keys.PublicKey)) == nil }},
	{"keys.NewPrivateKeyFromHex", func(r *rng) string { return hx(c18Nep2Key(r.next()).Bytes()) },
		func(s string) bool { _, err := keys.NewPrivateKeyFromHex(s); return err == nil }},
	{"util.Uint160DecodeStringLE", func(r *rng) string { return c18U160(r).StringLE() },
		func(s string) bool { _, err := util.Uint160DecodeStringLE(s); return err == nil }},
	{"util.Uint160DecodeStringBE", func(r *rng) string { return c18U160(r).StringBE() },
		func(s string) bool { _, err := util.Uint160DecodeStringBE(s); return err == nil }},
	{"util.Uint160.UnmarshalJSON", func(r *rng) string { return "0x" + c18U160(r).StringLE() },
		func(s string) bool { j, _ := json.Marshal(s); return json.Unmarshal(j, new(util.Uint160)) == nil }},
	{"util.Uint256DecodeStringLE", func(r *rng) string { return hx(r.bytes(32)) },
		func(s string) bool { _, err := util.Uint256DecodeStringLE(s); return err == nil }},
	{"util.Uint256DecodeStringBE", func(r *rng) string { return hx(r.bytes(32)) },
		func(s string) bool { _, err := util.Uint256DecodeStringBE(s); return err == nil }},
	{"util.Uint256.UnmarshalJSON", func(r *rng) string { return "0x" + hx(r.bytes(32)) },
		func(s string) bool { j, _ := json.Marshal(s); return json.Unmarshal(j, new(util.Uint256)) == nil }},
	{"fixedn.FromString (8)", func(r *rng) string { return c18Decimal(r) },
		func(s string) bool { _, err := fixedn.FromString(s, 8); return err == nil }},
	{"fixedn.Fixed8FromString", func(r *rng) string { return c18Decimal(r) },
		func(s string) bool { _, err := fixedn.Fixed8FromString(s); return err == nil }},
	{"fixedn.Fixed8.UnmarshalJSON (string)", func(r *rng) string { return c18Decimal(r) },
		func(s string) bool { j, _ := json.Marshal(s); return json.Unmarshal(j, new(fixedn.Fixed8)) == nil }},
	{"base58.CheckDecode", func(r *rng) string { return base58.CheckEncode(r.bytes(1 + r.intn(30))) },
		func(s string) bool { _, err := base58.CheckDecode(s); return err == nil }},
	{"mr-tron/base58.Decode", func(r *rng) string { return mrbase58.Encode(r.bytes(1 + r.intn(30))) },
		func(s string) bool { _, err := mrbase58.Decode(s); return err == nil }},
}

func c18U160(r *rng) util.Uint160 {
	u, _ := util.Uint160DecodeBytesBE(r.bytes(20))
	return u
}

func c18Decimal(r *rng) string {
	return pick(r, []string{"0", "1", "-1", "12.5", "-0.25", "100000000", "92233720368.54775807", "3.14159265", "-7.00000001", "+5", "0.1"})
}

func c18StrSweep(co *caseOut, in c18xInput) {
	d := c18StrDecoders[in.N%len(c18StrDecoders)]
	s := *in.S
	var acc bool
	if p := catch(func() { acc = d.dec(s) }); p != "" {
		co.violation("strsweep", d.name+" panics on a text with bytes outside ASCII", in, p)
		return
	}
	if acc && !c18ASCII(s) {
		co.violation("strsweep", d.name+" ACCEPTS a text with bytes outside its (ASCII) alphabet: look-alike characters must be rejected, not folded", in, s)
	}
	if !acc && in.Mode == 1 {
		co.violation("strsweep", d.name+" rejects the valid text the look-alikes were made from (harness self-check)", in, s)
	}
	co.hist["strsweep/"+d.name]++
}

// ---- generation ----

// a text input: as bytes in Raw (the empty text as S, since an empty Raw means "absent")
func c18Text(in c18xInput, s string) c18xInput {
	if s == "" {
		in.S = sp("")
	} else {
		in.Raw = hx([]byte(s))
	}
	return in
}

func c18Nep2Generate(co *caseOut, r *rng, cf *commonFlags) {
	n := cf.n
	c18CheckAtoms()
	seed := cf.seed*1299709 + 17
	run := func(p, q []byte, mode int) {
		seed++
		c18xRun(co, "nep2", c18xInput{Seed: seed, P: hx(p), Q: hx(q), Mode: mode})
	}
	// every atom: each spelling against each other spelling, alone and inside a longer passphrase
	for ai, a := range c18Atoms {
		for i := range a.forms {
			for j := range a.forms {
				if i == j && len(a.forms) > 1 {
					continue
				}
				if cf.tier == "quick" && (ai+i+j+int(cf.seed))%2 == 1 && len(a.forms) > 2 {
					continue
				}
				run([]byte(a.forms[i]), []byte(a.forms[j]), 0)
				if r.chance(25) {
					run([]byte("pre"+a.forms[i]+"post"), []byte("pre"+a.forms[j]+"post"), 0)
				}
			}
		}
	}
	// (d) empty, very long (ASCII, and marks beyond the 30 non-starters of a stream-safe text), NUL, invalid UTF-8
	long1 := bytes.Repeat([]byte("correct horse battery staple "), 150)
	long2 := append([]byte("e"), bytes.Repeat([]byte("\u0301"), 40)...)
	long3 := bytes.Repeat([]byte("\u00e9\ufb01"), 600)
	long3d := bytes.Repeat([]byte("e\u0301\ufb01"), 600)
	long3k := bytes.Repeat([]byte("\u00e9fi"), 600)
	for _, pq := range [][2][]byte{{nil, nil}, {nil, []byte(" ")}, {nil, []byte("\x00")}, {nil, []byte("\u0301")}, {long1, long1}, {long1, long1[:len(long1)-1]},
		{long2, append([]byte("\u00e9"), bytes.Repeat([]byte("\u0301"), 39)...)}, {long2, long2[:len(long2)-2]}, {long3, long3d}, {long3, long3k},
		{[]byte("a\x00b"), []byte("a")}, {long1, c18Sha256(long1)}, {[]byte("a\x00b"), []byte("a\x00b")}, {[]byte("a\x00"), []byte("a")}, {[]byte("\xff\xfe"), []byte("\xff\xfe")}, {[]byte("\xff"), []byte("\xfe")},
		{[]byte("\xff"), []byte("\ufffd")}, {[]byte("e\xcc\x81"), []byte("\u00e9")}, {[]byte("\xed\xa0\x80"), []byte("\ufffd\ufffd\ufffd")}, {[]byte("\xc3\xa9"), []byte("\xc3")}} {
		run(pq[0], pq[1], 0)
	}
	// generated pairs
	for i := 0; i < n/6+14; i++ {
		how := pick(r, []int{0, 1, 1, 1, 2, 2, 2, 3})
		p, q := c18GenPassPair(r, how)
		run(p, q, 0)
	}
	// the standard scrypt parameters: the published vectors, and one pair of each class
	for i := range c18Nep2Vectors {
		mode := 1
		if cf.tier != "quick" || i == int(cf.seed%3) {
			mode = 0
		}
		c18xRun(co, "nep2vec", c18xInput{N: i, Mode: mode})
	}
	run([]byte("caf\u00e9 \ufb01n"), []byte("caf\u00e9 fin"), 1)
	if cf.tier != "quick" {
		run([]byte("caf\u00e9 \ufb01n"), []byte("cafe\u0301 \ufb01n"), 1)
		for i := 0; i < 6; i++ {
			p, q := c18GenPassPair(r, 1+i%2)
			run(p, q, 1)
		}
	}
	// envelopes: damaged in every field, of other lengths, look-alikes
	cheap := keys.ScryptParams{N: 2, R: 1, P: 1}
	for i := 0; i < n/10+10; i++ {
		e, _ := keys.NEP2Encrypt(c18Nep2Key(r.next()), "p", cheap)
		payload, _ := base58.CheckDecode(e)
		var s string
		switch i % 10 {
		case 0:
			s = e
		case 1:
			b := bytes.Clone(payload)
			b[r.intn(3)] ^= byte(1 << uint(r.intn(8)))
			s = base58.CheckEncode(b)
		case 2:
			b := bytes.Clone(payload)
			b[2] = pick(r, []byte{0xe1, 0xc0, 0x00, 0xff})
			s = base58.CheckEncode(b)
		case 3:
			s = base58.CheckEncode(payload[:38])
		case 4:
			s = base58.CheckEncode(append(bytes.Clone(payload), byte(r.next())))
		case 5:
			b := []byte(e)
			b[r.intn(len(b))] = "123456789ABCDEFGHJKLMNPQRSTUVWXYZabcdefghijkmnopqrstuvwxyz"[r.intn(58)]
			s = string(b)
		case 6:
			s = c18LookAlike(r, e)
		case 7:
			s = pick(r, []string{"", "6P", c18Nep2Key(1).WIF(), c18Nep2Key(1).Address(), e[:57], e + "1", "1" + e})
		case 8:
			b := bytes.Clone(payload)
			b[3+r.intn(36)] ^= 0x10 // address hash or body: still an envelope
			s = base58.CheckEncode(b)
		default:
			s = base58.CheckEncode(append([]byte{0x01, 0x42, 0xe0}, r.bytes(36)...))
		}
		c18xRun(co, "nep2frame", c18Text(c18xInput{}, s))
	}
	// look-alikes of valid strings into every decoder; the valid string itself as a self-check
	for di := range c18StrDecoders {
		for i := 0; i < n/25+5; i++ {
			v := c18StrDecoders[di].valid(r)
			if i == 0 {
				c18xRun(co, "strsweep", c18Text(c18xInput{N: di, Mode: 1}, v))
			}
			c18xRun(co, "strsweep", c18Text(c18xInput{N: di}, c18LookAlike(r, v)))
		}
	}
	// and into the kinds that are compared with the Coq model (which works on bytes: every one of these is None there)
	for i := 0; i < n/12+6; i++ {
		b := r.bytes(1 + r.intn(30))
		la := func(s string) string { return hx([]byte(c18LookAlike(r, s))) }
		c18xRun(co, "b58_dec", c18xInput{Raw: la(mrbase58.Encode(b))})
		c18xRun(co, "check_dec", c18xInput{Raw: la(base58.CheckEncode(bytes.Clone(b)))})
		c18xRun(co, "addr_dec", c18xInput{Prefix: int(address.NEO3Prefix), Raw: la(address.Uint160ToString(c18U160(r)))})
		c18xRun(co, "fixed_fromstr", c18xInput{Prec: pick(r, []int{0, 1, 8}), Raw: la(c18Decimal(r))})
		c18xRun(co, "fixed8_fromstr", c18xInput{Raw: la(c18Decimal(r))})
		l := pick(r, []int{20, 32})
		h := hx(r.bytes(l))
		if r.bool() {
			h = "0x" + h
		}
		c18xRun(co, "uint_dec", c18xInput{N: l, Mode: r.intn(3), Raw: la(h)})
	}
}
