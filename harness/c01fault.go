package main

// C01, flushes that FAIL.  Blockchain.Run only logs a failed persist and carries on; MemCachedStore.persist then has to
// put the batch it could not write back UNDER whatever was written to the cache while the write was in progress (newer
// values and tombstones win).  A replica with Faults runs on a lower store whose PutChangeSet can be blocked and made
// to fail: the flush is started on another goroutine exactly as the timer of Run does it (VerifPersistAsTimer, no
// addLock), blocks are added while it hangs inside the store, then it fails.  The node must answer like the source
// node at every height while the flush is in progress, after it failed, after further failures, after the next flush
// that succeeds and after a restart.

import (
	"errors"
	"sync"

	"github.com/nspcc-dev/neo-go/pkg/core"
	"github.com/nspcc-dev/neo-go/pkg/core/storage"
)

type c01Fault struct {
	At     int    `json:"at"`     // the flush is started after the block of this height ...
	Gather int    `json:"gather"` // ... no flush after the Gather blocks before it (0: a flush right before block At, the batch is that block alone)
	During int    `json:"during"` // ... and hangs inside the store while the next During blocks are added (0: it fails at once)
	Fails  int    `json:"fails"`  // it fails, and so do Fails-1 further flushes, one tried after each of the following blocks
	Then   string `json:"then"`   // "flush": a flush that succeeds follows at once; "restart": and the node is restarted; "": the regular schedule goes on
}

var errC01Fault = errors.New("verif: injected failure of PutChangeSet")

type c01FaultStore struct {
	storage.Store
	mu      sync.Mutex
	gate    chan struct{} // not nil: the next PutChangeSet closes entered and waits for gate
	entered chan struct{}
	fails   int             // this many of the next PutChangeSet calls fail (nothing is written)
	batch   map[string]bool // the batch of the last blocked call: key (with a 0/1 byte for mem/stor) -> is a deletion
	nfailed int
}

func (s *c01FaultStore) arm(gated bool, fails int) (entered, gate chan struct{}) {
	s.mu.Lock()
	defer s.mu.Unlock()
	s.fails = fails
	s.batch = nil
	if gated {
		s.gate, s.entered = make(chan struct{}), make(chan struct{})
	}
	return s.entered, s.gate
}

// disarm: no failure and no gate is pending any more (before Close, whose final flush must succeed)
func (s *c01FaultStore) disarm() {
	s.mu.Lock()
	defer s.mu.Unlock()
	s.fails = 0
	if s.gate != nil {
		s.gate, s.entered = nil, nil
	}
}

func (s *c01FaultStore) PutChangeSet(puts, stor map[string][]byte) error {
	s.mu.Lock()
	gate, entered := s.gate, s.entered
	s.gate, s.entered = nil, nil
	if gate != nil {
		// nothing changes the two maps of a batch in flight
		s.batch = make(map[string]bool, len(puts)+len(stor))
		for k, v := range puts {
			s.batch["\x00"+k] = v == nil
		}
		for k, v := range stor {
			s.batch["\x01"+k] = v == nil
		}
	}
	s.mu.Unlock()
	if gate != nil {
		close(entered)
		<-gate
	}
	s.mu.Lock()
	fail := s.fails > 0
	if fail {
		s.fails--
		s.nfailed++
	}
	s.mu.Unlock()
	if fail {
		return errC01Fault
	}
	return s.Store.PutChangeSet(puts, stor)
}

// c01Pending: what the node's write cache holds now, in the form of c01FaultStore.batch
func c01Pending(bc *core.Blockchain) map[string]bool {
	wc := bc.VerifWriteCache()
	wc.VerifRLock()
	mem, stor := wc.VerifPendingChanges()
	wc.VerifRUnlock()
	res := make(map[string]bool, len(mem)+len(stor))
	for k, v := range mem {
		res["\x00"+k] = v == nil
	}
	for k, v := range stor {
		res["\x01"+k] = v == nil
	}
	return res
}

// c01RunFault plays one failing flush after block *i was added and compared; it advances *i over the blocks it adds.
func c01RunFault(f c01Fault, i *int, nblocks int, bc func() *core.Blockchain, fst func() *c01FaultStore,
	stepBlock func(i int, quiet bool, phase string) *c01Divergence, check func(i int, after bool, phase string) *c01Divergence,
	mk func(i int, after bool, mine *c01Obs, fields, detail []string, errs string) *c01Divergence,
	reopen func() error, restart map[int]bool, canRestart bool, st map[string]int) *c01Divergence {
	fails := f.Fails
	if fails < 1 {
		fails = 1
	}
	st["x_fault_events"]++
	if f.During > 0 {
		entered, gate := fst().arm(true, fails)
		done := make(chan error, 1)
		go func(b *core.Blockchain) {
			_, err := b.VerifPersistAsTimer()
			done <- err
		}(bc())
		released := false
		release := func() error {
			if !released {
				released = true
				close(gate)
			}
			return <-done
		}
		select {
		case <-entered:
		case <-done:
			// nothing was waiting in the cache: no flush, nothing to fail
			fst().disarm()
			st["x_fault_nothing_to_flush"]++
			return nil
		}
		added := 0
		for ; added < f.During && *i+1 < nblocks; added++ {
			*i++
			if dv := stepBlock(*i, true, "flush-in-progress"); dv != nil {
				release()
				return dv
			}
		}
		// what the failing flush meets: the batch in flight against what was written meanwhile
		fst().mu.Lock()
		batch := fst().batch
		fst().mu.Unlock()
		newer := c01Pending(bc())
		both, delOverPut, putOverDel := 0, 0, 0
		for k, del := range newer {
			if bdel, ok := batch[k]; ok {
				both++
				if del && !bdel {
					delOverPut++
				}
				if !del && bdel {
					putOverDel++
				}
			}
		}
		bump := func(k string, c bool) {
			if c {
				st[k]++
			}
		}
		bump("x_fault_blocks_during_flush", added > 0)
		bump("x_fault_same_key_in_batch_and_newer", both > 0)
		bump("x_fault_newer_delete_over_batch_put", delOverPut > 0)
		bump("x_fault_newer_put_over_batch_delete", putOverDel > 0)
		bump("x_fault_newer_bigger_than_batch", len(newer) > len(batch))
		bump("x_fault_newer_smaller_than_batch", len(newer) < len(batch) && len(newer) > 0)
		err := release()
		if err != nil {
			st["x_fault_flush_errors_returned"]++
		}
		fails--
		if dv := check(*i, false, "after-failed-flush"); dv != nil {
			return dv
		}
	} else {
		fst().arm(false, fails)
	}
	// further failures (or all of them when nothing is added during the flush): a flush at a block boundary that fails,
	// a block, the next one
	for ; fails > 0; fails-- {
		if _, err := bc().VerifPersist(); err != nil {
			st["x_fault_flush_errors_returned"]++
		}
		if dv := check(*i, false, "after-failed-flush"); dv != nil {
			fst().disarm()
			return dv
		}
		if fails > 1 && *i+1 < nblocks {
			*i++
			if dv := stepBlock(*i, true, "between-failed-flushes"); dv != nil {
				fst().disarm()
				return dv
			}
		}
	}
	fst().disarm()
	if f.Then == "flush" || f.Then == "restart" {
		if _, err := bc().VerifPersist(); err != nil {
			return mk(*i, false, nil, []string{"VerifPersist"}, nil, "VerifPersist after the injected failures: "+err.Error())
		}
		st["x_fault_then_flush"]++
		if dv := check(*i, false, "flush-after-failed-flush"); dv != nil {
			return dv
		}
	}
	if f.Then == "restart" && canRestart {
		if err := reopen(); err != nil {
			return mk(*i, true, nil, []string{"restart"}, nil, "restart after the injected failures: "+err.Error())
		}
		st["x_fault_then_restart"]++
		if dv := check(*i, true, "restart-after-failed-flush"); dv != nil {
			return dv
		}
	}
	return nil
}

// c01FaultSchedule: failing flushes laid back to back over the chain, every parameter drawn anew
func c01FaultSchedule(r *rng, nblocks int) []c01Fault {
	var out []c01Fault
	h := 1 + r.intn(3)
	for {
		f := c01Fault{
			Gather: pick(r, []int{0, 0, 1, 2, 4}),
			During: pick(r, []int{0, 1, 1, 2, 3, 5}),
			Fails:  pick(r, []int{1, 1, 1, 2, 3}),
			Then:   pick(r, []string{"", "flush", "restart", "restart"}),
		}
		f.At = h + f.Gather + 1
		end := f.At + f.During + f.Fails
		if end > nblocks {
			break
		}
		out = append(out, f)
		h = end + r.intn(2)
	}
	return out
}
