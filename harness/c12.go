package main

// c12: the VM is total, bounded and memory-safe.  The real VM is driven instruction by instruction
// (OnExecHook); before every instruction and at the end the harness checks directly:
//   no Go panic escapes Run; HALT => GasConsumed <= GasLimit; VM.refs (VerifRefs hook) >= an independent walk of
//   all stacks and slots, and == as long as no cyclic structure was ever seen; refs <= MaxStackSize; integers
//   within 256 bits; byte strings/buffers <= MaxSize; invocation depth <= 1024;
// and the refs trace, final state, stack and gas are compared with the Coq model (Harness/C12.v).
// Inputs: arbitrary byte strings, mutated programs, and deep well-typed programs generated against the actual VM
// state of a shadow run (nested/shared compounds on stack, in slots and inside compounds, every collection
// instruction, calls, try/catch/finally, throws, context unloading).

import (
	"encoding/json"
	"fmt"
	"math/big"
	"os"

	"github.com/nspcc-dev/neo-go/pkg/smartcontract/scparser"
	"github.com/nspcc-dev/neo-go/pkg/util"
	"github.com/nspcc-dev/neo-go/pkg/vm"
	"github.com/nspcc-dev/neo-go/pkg/vm/opcode"
	"github.com/nspcc-dev/neo-go/pkg/vm/stackitem"
	"github.com/nspcc-dev/neo-go/pkg/vm/vmstate"
)

func init() { register("c12", runC12) }

type c12Input struct {
	Script  string   `json:"script,omitempty"`
	Ops     []string `json:"ops,omitempty"` // instruction-wise hex of the script (for shrinking); Script wins if set
	Base    int64    `json:"base"`
	Limit   int64    `json:"limit"`             // datoshi
	Scripts []string `json:"scripts,omitempty"` // kind "multi": SYSCALL k loads Scripts[k-1] on top (k odd: LoadScriptWithHash, one result; k even: LoadScriptWithFlags)
	Methods []int    `json:"methods,omitempty"` // kind "methods" only: method offsets for IsScriptCorrect's bit field
}

func (in c12Input) script() []byte {
	if in.Script != "" {
		return unhx(in.Script)
	}
	var b []byte
	for _, o := range in.Ops {
		b = append(b, unhx(o)...)
	}
	return b
}

const c12TraceMax = 400

type c12Obs struct {
	Res       c13Result `json:"res"`
	Refs      []int     `json:"refs,omitempty"`
	EverCyc   bool      `json:"ever_cyclic"`
	MaxDepth  int       `json:"max_depth"`
	MaxRefs   int       `json:"max_refs"`
	Static    bool      `json:"static_ok"`       // scparser.IsScriptCorrect(script, nil) == nil
	Abandoned bool      `json:"abandoned_stack"` // an exception unwound a script context whose own evaluation stack was not empty
	F58Only   bool      `json:"f58_only"`        // the counter exceeds the walk by exactly what is on such abandoned stacks (finding F58), nothing else is wrong
	F50Shape  bool      `json:"f50_shape"`       // a REMOVE on a Map entry whose value reaches the map itself was executed (finding F50)
}

// c12Boundaries: instruction offsets of a linear decoding from offset 0 (nil if some instruction does not decode)
func c12Boundaries(script []byte) map[int]bool {
	b := map[int]bool{}
	ctx := scparser.NewContext(script, 0)
	for ctx.NextIP() < len(script) {
		if _, _, err := ctx.Next(); err != nil {
			return nil
		}
		b[ctx.IP()] = true
	}
	return b
}

// c12Exec steps the real VM through the script with all direct checks on.
func c12Exec(co *caseOut, kind string, in c12Input) (c12Obs, bool) {
	script := in.script()
	var obs c12Obs
	bad := ""
	var bounds map[int]bool
	multi := len(in.Scripts) > 0
	if multi {
		// several scripts: the static check of the entry script says nothing about the offsets executed in the others
	} else if p := catch(func() { obs.Static = scparser.IsScriptCorrect(script, nil) == nil }); p != "" {
		co.violation(kind, "scparser.IsScriptCorrect panicked: "+p, in, nil)
		return obs, false
	}
	if obs.Static {
		bounds = c12Boundaries(script)
		if bounds == nil {
			co.violation(kind, "script passes IsScriptCorrect but does not decode linearly", in, nil)
			return obs, false
		}
	}
	v := c13NewVM(in.Base, in.Limit)
	var aband [][]stackitem.Item
	check := func(where string) {
		if bad != "" {
			return
		}
		w := c12DoWalk(v)
		wa := w // the same with the abandoned stacks as further roots: what the unrepaired counter still holds
		if len(aband) > 0 {
			wa = c12DoWalk(v, aband...)
		}
		refs := v.VerifRefs()
		if os.Getenv("C12_DEBUG") != "" {
			fmt.Fprintf(os.Stderr, "%s refs=%d walk=%d walk+abandoned=%d depth=%d estack=%d\n", where, refs, w.total, wa.total, len(v.Istack()), v.Estack().Len())
		}
		obs.EverCyc = obs.EverCyc || w.cyclic
		obs.MaxDepth = max(obs.MaxDepth, len(v.Istack()))
		obs.MaxRefs = max(obs.MaxRefs, refs)
		switch {
		case refs < w.total:
			bad = fmt.Sprintf("%s: item counter under-counts: refs=%d but %d references are reachable", where, refs, w.total)
		case !obs.EverCyc && refs != wa.total:
			bad = fmt.Sprintf("%s: item counter not exact although no cycle was built: refs=%d, reachable=%d (with the stacks abandoned by exceptions: %d)", where, refs, w.total, wa.total)
		case !obs.EverCyc && refs != w.total:
			obs.F58Only = true
			bad = fmt.Sprintf("%s: item counter not exact although no cycle was built: refs=%d, reachable=%d; the difference is exactly what is on the evaluation stacks of scripts abandoned by an exception", where, refs, w.total)
		case refs > vm.MaxStackSize:
			bad = fmt.Sprintf("%s: refs=%d exceeds MaxStackSize in a running VM", where, refs)
		case w.total > vm.MaxStackSize:
			bad = fmt.Sprintf("%s: %d reachable references exceed MaxStackSize", where, w.total)
		case w.limitErr != "":
			bad = where + ": " + w.limitErr
		}
		for _, c := range v.Istack() {
			if n := len(c.VerifTryStack()); n > vm.MaxTryNestingDepth && bad == "" {
				bad = fmt.Sprintf("%s: %d nested try blocks in one context", where, n)
			}
		}
	}
	if multi {
		v.SyscallHandler = c12Loader(in.Scripts)
	}
	var prevStacks map[*vm.Stack][]stackitem.Item
	prevOp := opcode.NOP
	v.SetOnExecHook(func(_ util.Uint160, off int, op opcode.Opcode) {
		if multi { // did the previous instruction drop a script context by an exception while its stack still held items?
			// (the content is taken from the snapshot made before that instruction: a sub-stack shares its backing array
			// with the stack below, which overwrites it as soon as the handler pushes)
			cur := map[*vm.Stack][]stackitem.Item{}
			snap := func(st *vm.Stack) {
				if _, ok := cur[st]; !ok {
					its := make([]stackitem.Item, st.Len())
					for i := range its {
						its[i] = st.Peek(i).Item() // top first
					}
					cur[st] = its
				}
			}
			snap(v.Estack())
			for _, c := range v.Istack() {
				snap(c.Estack())
			}
			if prevOp != opcode.RET {
				for st, its := range prevStacks {
					if _, ok := cur[st]; !ok && st.Len() > 0 && st.Len() <= len(its) {
						obs.Abandoned = true
						aband = append(aband, its[len(its)-st.Len():])
					}
				}
			}
			prevStacks, prevOp = cur, op
		}
		if len(obs.Refs) < c12TraceMax && !obs.Abandoned { // (after an abandonment the unrepaired counter differs from the model's: F58) // (since the repair F50 is in the tree the trace is compared through REMOVE cascades too)
			obs.Refs = append(obs.Refs, v.VerifRefs())
		}
		if obs.Static && bad == "" && off != len(script) && !bounds[off] {
			bad = fmt.Sprintf("script passes the static check but executes offset %d, which is not an instruction boundary", off)
		}
		check(fmt.Sprintf("before instruction #%d at offset %d (%s)", obs.Res.Steps, off, op))
		if c12ClosesCycle(v, op) {
			obs.EverCyc = true
		}
		if c12F50Shape(v, op) {
			obs.F50Shape = true // informational: the shape on which the unrepaired VM under-counted (finding F50)
		}
		obs.Res.Steps++
	})
	v.LoadScript(script)
	var err error
	obs.Res.Panic = catch(func() { err = v.Run() })
	if err != nil {
		obs.Res.ErrStr = err.Error()
		if len(obs.Res.ErrStr) > 120 {
			obs.Res.ErrStr = obs.Res.ErrStr[:120]
		}
	}
	obs.Res.Gas = v.GasConsumed()
	if obs.Res.Panic != "" {
		co.violation(kind, "Go panic escaped Run: "+obs.Res.Panic, in, obs)
		return obs, false
	}
	if v.State() == vmstate.Halt {
		obs.Res.Halt = true
		obs.Res.Stack = c13SerStack(v.Estack())
		check("at HALT")
		if in.Limit >= 0 && obs.Res.Gas > in.Limit {
			bad = fmt.Sprintf("HALT with GasConsumed=%d > GasLimit=%d", obs.Res.Gas, in.Limit)
		}
	} else if v.State() != vmstate.Fault {
		bad = "Run returned in state " + v.State().String()
	}
	if bad != "" {
		co.violation(kind, bad, in, obs)
		return obs, false
	}
	return obs, true
}

var c12SweepCount int

func c12Run(co *caseOut, kind, tag string, in c12Input) {
	obs, ok := c12Exec(co, kind, in)
	if !ok {
		return
	}
	script := in.script()
	if len(in.Scripts) == 0 && kind != "gas" {
		c12SweepCount++
		if c12SweepCount%20 == 0 { // the gas limit at its boundary values (c12gas.go)
			c12GasSweep(co, script)
		}
	}
	// VM reuse: the same script after Reset() on a VM that has just executed other scripts (see c13reuse.go) must show
	// the same outcome and the same item-counter trace
	if len(in.Scripts) > 0 {
		// (several scripts: the reuse run is not repeated)
	} else if r3, ptags := c13ExecReused(script, in.Base, in.Limit, c13PickPreds(script, 0)); r3.Panic != "" {
		co.violation(kind, "Go panic escaped Run on a reused VM: "+r3.Panic, in, r3)
		return
	} else {
		same := r3.Halt == obs.Res.Halt && r3.Gas == obs.Res.Gas && r3.Stack == obs.Res.Stack && r3.Steps == obs.Res.Steps && len(r3.Refs) == len(obs.Refs)
		for i := 0; same && i < len(r3.Refs); i++ {
			same = r3.Refs[i] == obs.Refs[i]
		}
		if !same {
			co.violation(kind, "state leaks through VM.Reset(): outcome or item-counter trace after Reset() on a VM that had executed [ "+ptags+"] differ from the fresh VM's", in, []any{obs, r3})
			return
		}
	}
	if len(obs.Res.Stack) > 30000 {
		return
	}
	refs := make([]string, len(obs.Refs))
	for i, r := range obs.Refs {
		refs[i] = fmt.Sprint(r)
	}
	out := "fault"
	if obs.Res.Halt {
		out = "halt"
	}
	if obs.EverCyc {
		out += "+cyclic"
	}
	term := fmt.Sprintf("CTrace %s %d %d %d%%positive %s %s %s", coqBytes(script), in.Base, in.Limit*10000, obs.Res.Steps+16,
		coqList(refs), obs.Res.coq(), coqBool(obs.Static))
	if len(in.Scripts) > 0 {
		ps := make([]string, len(in.Scripts))
		for i, x := range in.Scripts {
			ps[i] = coqBytes(unhx(x))
		}
		term = fmt.Sprintf("CMulti %s %s %d %d %d%%positive %s %s", coqBytes(script), coqList(ps), in.Base, in.Limit*10000, obs.Res.Steps+16,
			coqList(refs), obs.Res.coq())
		if obs.Abandoned {
			out += "+abandoned"
		}
	}
	if obs.Static {
		out += "+static"
	}
	impl := obs
	if len(impl.Res.Stack) > 300 {
		impl.Res.Stack = impl.Res.Stack[:300] + "..."
	}
	if len(impl.Refs) > 40 {
		impl.Refs = impl.Refs[:40]
	}
	co.add(kind, tag+"/"+out, obs.Res.Steps >= 3 && obs.MaxRefs >= 2, in, impl, term)
	co.extra["x_max_refs_seen"] = max(obs.MaxRefs, c12ExtraInt(co, "x_max_refs_seen"))
	co.extra["x_max_depth_seen"] = max(obs.MaxDepth, c12ExtraInt(co, "x_max_depth_seen"))
}

func c12ExtraInt(co *caseOut, k string) int {
	if v, ok := co.extra[k].(int); ok {
		return v
	}
	return 0
}

// ------------------------------------------------------------------------------------------------
// deep generator: the program is grown one instruction (group) at a time; before each choice the program so far
// is run on a shadow VM up to its end ("the frontier"), so every instruction is chosen from the actual VM state.
// Control constructs use trampolines (JMP_L with a hole) that are patched to the frontier when a shadow run
// first reaches them, so the execution order of the generated code is its program order.
// ------------------------------------------------------------------------------------------------

type c12Gen struct {
	r     *rng
	ops   [][]byte     // instruction-wise
	off   []int        // offset of each ops entry
	n     int          // current length in bytes
	holes map[int]bool // offsets of unpatched trampolines (JMP_L 0)
	tries int          // TRY constructs opened (a rough count, to decide when THROW is interesting)
}

func (g *c12Gen) bytes() []byte {
	b := make([]byte, 0, g.n)
	for _, o := range g.ops {
		b = append(b, o...)
	}
	return b
}
func (g *c12Gen) emit(op opcode.Opcode, p ...byte) int {
	at := g.n
	g.ops = append(g.ops, append([]byte{byte(op)}, p...))
	g.off = append(g.off, at)
	g.n += 1 + len(p)
	return at
}
func (g *c12Gen) trampoline() int {
	at := g.emit(opcode.JMPL, 0, 0, 0, 0)
	g.holes[at] = true
	return at
}
func (g *c12Gen) patch(at int, rel int) {
	for i, o := range g.off {
		if o == at {
			g.ops[i][1], g.ops[i][2], g.ops[i][3], g.ops[i][4] = byte(rel), byte(rel>>8), byte(rel>>16), byte(rel>>24)
		}
	}
	delete(g.holes, at)
}
func (g *c12Gen) small(n int) {
	if n <= 16 {
		g.emit(opcode.Opcode(int(opcode.PUSH0) + n))
	} else {
		g.emit(opcode.PUSHINT8, byte(n))
	}
}

// shadow runs the program so far to the frontier (patching trampolines on the way); nil when it halted/faulted.
func (g *c12Gen) shadow() *vm.VM {
	for round := 0; round < 64; round++ {
		prog := g.bytes()
		v := vm.New()
		v.LoadScript(prog)
		repatch := false
		for steps := 0; steps < 20000; steps++ {
			ctx := v.Context()
			if ctx == nil || v.HasStopped() {
				return nil
			}
			ip := ctx.NextIP()
			if ip >= len(prog) {
				return v
			}
			if g.holes[ip] {
				g.patch(ip, len(prog)-ip)
				g.emit(opcode.NOP) // the jump target has to exist
				repatch = true
				break
			}
			if p := catch(func() { _ = v.Step() }); p != "" {
				return nil
			}
		}
		if !repatch {
			return nil
		}
	}
	return nil
}

func c12IsComp(it stackitem.Item) bool {
	switch it.(type) {
	case *stackitem.Array, *stackitem.Struct, *stackitem.Map:
		return true
	}
	return false
}
func c12IsSeq(it stackitem.Item) bool {
	switch it.(type) {
	case *stackitem.Array, *stackitem.Struct:
		return true
	}
	return false
}
func c12Len(it stackitem.Item) int {
	switch t := it.(type) {
	case *stackitem.Array:
		return t.Len()
	case *stackitem.Struct:
		return t.Len()
	case *stackitem.Map:
		return t.Len()
	}
	return 0
}

// one generation step at the frontier; returns false when nothing more can be generated
func (g *c12Gen) step(v *vm.VM) {
	r := g.r
	es := v.Estack()
	L := es.Len()
	top := func(i int) stackitem.Item { return es.Peek(i).Item() }
	ctx := v.Context()
	nstat, nloc, narg := ctx.StaticsSlot().Size(), ctx.LocalsSlot().Size(), ctx.ArgumentsSlot().Size()
	depth := len(v.Istack())
	ts := ctx.VerifTryStack()
	topState := -1 // state of the innermost exception handling context of this context
	if len(ts) > 0 {
		topState = ts[0][0]
	}
	handlers := 0 // handlers an exception could reach
	for _, c := range v.Istack() {
		for _, t := range c.VerifTryStack() {
			if t[0] == 0 || (t[0] == 1 && t[2] == 1) {
				handlers++
			}
		}
	}
	for try := 0; try < 20; try++ {
		choice := r.intn(48)
		switch {
		case choice < 3:
			g.small(r.intn(5))
		case choice == 3:
			g.emit(opcode.PUSHDATA1, 2, byte(r.intn(3)), 7)
		case choice == 4:
			g.emit(pick(r, []opcode.Opcode{opcode.NEWARRAY0, opcode.NEWSTRUCT0, opcode.NEWMAP}))
		case choice == 5:
			g.small(r.intn(4))
			g.emit(pick(r, []opcode.Opcode{opcode.NEWARRAY, opcode.NEWSTRUCT}))
		case choice == 6 && L >= 1:
			n := r.intn(min(L, 4) + 1)
			g.small(n)
			g.emit(pick(r, []opcode.Opcode{opcode.PACK, opcode.PACKSTRUCT}))
		case choice == 7 && L >= 1:
			g.emit(opcode.DUP)
		case choice == 8 && L >= 2:
			g.emit(pick(r, []opcode.Opcode{opcode.OVER, opcode.SWAP, opcode.TUCK, opcode.NIP}))
		case choice == 9 && L >= 3:
			g.emit(pick(r, []opcode.Opcode{opcode.ROT, opcode.REVERSE3}))
		case choice == 10 && L >= 1:
			g.emit(opcode.DROP)
		case choice == 11 && L >= 1:
			g.small(r.intn(L))
			g.emit(pick(r, []opcode.Opcode{opcode.PICK, opcode.ROLL, opcode.XDROP}))
		case choice == 12 && L >= 2 && c12IsSeq(top(1)): // APPEND top0 to top1, keep the container
			g.emit(opcode.OVER)
			g.emit(opcode.SWAP)
			g.emit(opcode.APPEND)
		case choice == 13 && L >= 1 && c12IsSeq(top(0)): // append a container to itself or share it inside another
			g.emit(opcode.DUP)
			g.emit(opcode.DUP)
			g.emit(opcode.APPEND)
		case choice == 14 && L >= 1 && c12IsSeq(top(0)) && c12Len(top(0)) > 0:
			g.emit(opcode.DUP)
			g.small(r.intn(c12Len(top(0))))
			g.emit(pick(r, []opcode.Opcode{opcode.PICKITEM, opcode.REMOVE}))
		case choice == 15 && L >= 2 && c12IsSeq(top(1)) && c12Len(top(1)) > 0: // SETITEM top1[i] = top0, keep container
			g.emit(opcode.OVER)
			g.emit(opcode.SWAP)
			g.small(r.intn(c12Len(top(1))))
			g.emit(opcode.SWAP)
			g.emit(opcode.SETITEM)
		case choice == 16 && L >= 2:
			if _, ok := top(1).(*stackitem.Map); ok {
				g.emit(opcode.OVER)
				g.emit(opcode.SWAP)
				g.small(r.intn(3))
				g.emit(opcode.SWAP)
				g.emit(opcode.SETITEM)
			} else {
				continue
			}
		case choice == 17 && L >= 1:
			if m, ok := top(0).(*stackitem.Map); ok && m.Len() > 0 {
				g.emit(opcode.DUP)
				g.small(r.intn(3))
				g.emit(pick(r, []opcode.Opcode{opcode.REMOVE, opcode.HASKEY, opcode.PICKITEM}))
				if r.bool() {
					g.emit(opcode.DROP)
				}
			} else {
				continue
			}
		case choice == 18 && L >= 1 && c12IsComp(top(0)):
			if r.bool() {
				g.emit(opcode.DUP)
			}
			g.emit(opcode.CLEARITEMS)
		case choice == 19 && L >= 1 && c12IsSeq(top(0)) && c12Len(top(0)) > 0:
			if r.bool() {
				g.emit(opcode.DUP)
			}
			g.emit(opcode.POPITEM)
		case choice == 20 && L >= 1 && c12IsComp(top(0)) && c12Len(top(0)) < 6:
			if r.bool() {
				g.emit(opcode.DUP)
			}
			g.emit(opcode.UNPACK)
			if r.bool() {
				g.emit(opcode.DROP)
			} else {
				g.emit(pick(r, []opcode.Opcode{opcode.PACK, opcode.PACKSTRUCT}))
			}
		case choice == 21 && L >= 1 && c12IsComp(top(0)):
			if r.bool() {
				g.emit(opcode.DUP)
			}
			g.emit(opcode.VALUES)
		case choice == 22 && L >= 1:
			if _, ok := top(0).(*stackitem.Map); ok {
				if r.bool() {
					g.emit(opcode.DUP)
				}
				g.emit(opcode.KEYS)
			} else {
				continue
			}
		case choice == 23 && L >= 1: // store into a slot that exists
			var cands [][]byte
			for i := 0; i < nstat; i++ {
				cands = append(cands, []byte{byte(opcode.STSFLD), byte(i)})
			}
			for i := 0; i < nloc; i++ {
				cands = append(cands, []byte{byte(opcode.STLOC), byte(i)})
			}
			for i := 0; i < narg; i++ {
				cands = append(cands, []byte{byte(opcode.STARG), byte(i)})
			}
			if len(cands) == 0 {
				continue
			}
			if r.bool() {
				g.emit(opcode.DUP)
			}
			c := pick(r, cands)
			g.emit(opcode.Opcode(c[0]), c[1])
		case choice == 24:
			var cands [][]byte
			for i := 0; i < nstat; i++ {
				cands = append(cands, []byte{byte(opcode.LDSFLD), byte(i)})
			}
			for i := 0; i < nloc; i++ {
				cands = append(cands, []byte{byte(opcode.LDLOC), byte(i)})
			}
			for i := 0; i < narg; i++ {
				cands = append(cands, []byte{byte(opcode.LDARG), byte(i)})
			}
			if len(cands) == 0 {
				continue
			}
			c := pick(r, cands)
			g.emit(opcode.Opcode(c[0]), c[1])
		case choice == 25 && L >= 1 && c12IsSeq(top(0)):
			g.emit(opcode.DUP)
			g.emit(opcode.REVERSEITEMS)
		case choice == 26 && L >= 2: // PACKMAP of fresh key/value pairs
			n := r.intn(min(L/2, 3) + 1)
			for i := 0; i < n; i++ {
				g.emit(opcode.DUP)
				g.small(i + r.intn(2))
			}
			g.small(n)
			g.emit(opcode.PACKMAP)
		case choice == 27 && nstat == 0:
			g.emit(opcode.INITSSLOT, byte(1+r.intn(3)))
		case choice == 28 && nloc == 0 && narg == 0:
			na := r.intn(min(L, 3) + 1)
			nl := r.intn(3)
			if na == 0 && nl == 0 {
				nl = 1
			}
			g.emit(opcode.INITSLOT, byte(nl), byte(na))
		case (choice == 29 || choice == 30) && depth < 6: // CALL construct: CALL body; JMP_L over it (hole)
			g.emit(opcode.CALL, 7)
			g.trampoline()
			g.emit(opcode.NOP)
		case choice == 31 && depth > 1:
			g.emit(opcode.RET)
		case choice == 32 && len(ts) < 17 && g.tries < 40: // TRY with trampolines for catch and finally
			hasC, hasF := r.chance(75), r.chance(45)
			if !hasC && !hasF {
				hasC = true
			}
			c, f := byte(0), byte(0)
			if hasC {
				c = 14
			}
			if hasF {
				f = 19
			}
			g.emit(opcode.TRYL, c, 0, 0, 0, f, 0, 0, 0)
			g.emit(opcode.JMPL, 15, 0, 0, 0)
			g.trampoline() // catch
			g.trampoline() // finally
			g.emit(opcode.NOP)
			g.tries++
		case (choice == 33 || choice == 47) && (topState == 0 || topState == 1): // leave a try/catch block: ENDTRY to the trampoline right after it
			g.emit(opcode.ENDTRYL, 5, 0, 0, 0)
			g.trampoline()
		case choice == 34 && (topState == 2 || r.chance(2)):
			g.emit(opcode.ENDFINALLY)
		case choice == 35 && L >= 1 && (handlers > 0 || r.chance(3)):
			if r.bool() {
				g.emit(opcode.DUP)
			}
			g.emit(opcode.THROW)
		case choice == 36 && L >= 1 && c12IsSeq(top(0)) && handlers > 0: // catchable failure: index out of range
			g.emit(opcode.DUP)
			g.small(c12Len(top(0)) + r.intn(2))
			if r.bool() {
				g.emit(opcode.PICKITEM)
			} else {
				g.small(1)
				g.emit(opcode.SETITEM)
			}
		case choice == 37 && L >= 1 && c12IsComp(top(0)):
			g.emit(opcode.DUP)
			if _, isMap := top(0).(*stackitem.Map); isMap {
				g.emit(opcode.CONVERT, pick(r, []byte{0x48, 0x20}))
			} else {
				g.emit(opcode.CONVERT, pick(r, []byte{0x40, 0x41, 0x20}))
			}
		case choice == 38 && L >= 2:
			g.emit(opcode.OVER)
			g.emit(opcode.OVER)
			g.emit(pick(r, []opcode.Opcode{opcode.EQUAL, opcode.NOTEQUAL}))
		case choice == 39:
			g.emit(opcode.PUSHDATA1, 3, 1, 2, 3)
			g.emit(opcode.CONVERT, 0x30) // a buffer
		case choice == 40 && L >= 1:
			if _, ok := top(0).(*stackitem.Buffer); ok {
				g.emit(opcode.DUP)
				g.small(r.intn(3))
				g.small(r.intn(200))
				g.emit(opcode.SETITEM)
			} else {
				continue
			}
		case choice == 41 && L >= 2 && c12IsSeq(top(0)) && c12IsComp(top(1)): // put container top1 into container top0 (sharing)
			g.emit(opcode.OVER)
			g.emit(opcode.OVER)
			g.emit(opcode.SWAP)
			g.emit(opcode.APPEND)
		case choice == 42 && L >= 1:
			g.emit(opcode.DEPTH)
			g.emit(pick(r, []opcode.Opcode{opcode.PACK, opcode.PACKSTRUCT}))
		case choice == 43 && L >= 1:
			g.emit(opcode.CLEAR)
		case choice == 44 && L >= 1:
			g.emit(opcode.DUP)
			if _, isNull := top(0).(stackitem.Null); isNull {
				g.emit(opcode.ISNULL)
			} else if _, isPtr := top(0).(*stackitem.Pointer); isPtr {
				g.emit(opcode.ISNULL)
			} else {
				g.emit(pick(r, []opcode.Opcode{opcode.SIZE, opcode.ISNULL}))
			}
			g.emit(opcode.DROP)
		case choice == 45: // a bigger array (limits)
			g.emit(opcode.PUSHINT16, byte(r.intn(256)), byte(r.intn(3)))
			g.emit(pick(r, []opcode.Opcode{opcode.NEWARRAY, opcode.NEWSTRUCT}))
		case choice == 46 && L >= 1 && r.chance(10): // anything at all
			c13x := &c13Asm{}
			c13RandInstr(c13x, r, c13AllOps())
			g.ops = append(g.ops, c13x.b)
			g.off = append(g.off, g.n)
			g.n += len(c13x.b)
		default:
			continue
		}
		return
	}
	g.small(1)
}

// c12Deep generates one deep program (instruction-wise)
func c12Deep(r *rng, steps int) [][]byte {
	g := &c12Gen{r: r, holes: map[int]bool{}}
	if r.chance(70) {
		g.emit(opcode.INITSSLOT, byte(1+r.intn(3)))
	}
	if r.chance(60) {
		g.emit(opcode.INITSLOT, byte(1+r.intn(3)), 0)
	}
	for s := 0; s < steps; s++ {
		v := g.shadow()
		if v == nil {
			return g.ops
		}
		g.step(v)
	}
	// finish: return from every open context
	for k := 0; k < 80; k++ {
		v := g.shadow()
		if v == nil {
			break
		}
		ts := v.Context().VerifTryStack()
		switch {
		case len(ts) > 0 && ts[0][0] == 2:
			g.emit(opcode.ENDFINALLY)
		case len(ts) > 0 && g.r.chance(60):
			g.emit(opcode.ENDTRYL, 5, 0, 0, 0)
			g.trampoline()
		default:
			g.emit(opcode.RET)
		}
	}
	return g.ops
}

// c12StaticProg: random instructions whose jump/call/try/pointer operands are then patched to instruction boundaries
func c12StaticProg(r *rng, all []opcode.Opcode) []byte {
	var ins [][]byte
	for k := 2 + r.intn(14); k > 0; k-- {
		a := &c13Asm{}
		if r.chance(40) {
			c13RandInstr(a, r, []opcode.Opcode{opcode.JMP, opcode.JMPL, opcode.JMPIF, opcode.JMPIFNOTL, opcode.JMPEQ, opcode.JMPLEL, opcode.CALL, opcode.CALLL,
				opcode.PUSHA, opcode.TRY, opcode.TRYL, opcode.ENDTRY, opcode.ENDTRYL, opcode.CALLA, opcode.ENDFINALLY, opcode.THROW, opcode.RET})
		} else if r.chance(50) {
			a.op(pick(r, []opcode.Opcode{opcode.PUSH0, opcode.PUSH1, opcode.PUSH2, opcode.DUP, opcode.DROP, opcode.NOP, opcode.NEWARRAY0, opcode.DEC}))
		} else {
			c13RandInstr(a, r, all)
		}
		ins = append(ins, a.b)
	}
	offs := []int{}
	n := 0
	for _, x := range ins {
		offs = append(offs, n)
		n += len(x)
	}
	offs = append(offs, n)
	rel := func(from int, long bool) []byte {
		for try := 0; try < 50; try++ {
			d := pick(r, offs) - from
			if long {
				return []byte{byte(d), byte(d >> 8), byte(d >> 16), byte(d >> 24)}
			}
			if d >= -128 && d <= 127 {
				return []byte{byte(d)}
			}
		}
		return []byte{0}
	}
	for i, x := range ins {
		op := opcode.Opcode(x[0])
		switch {
		case op == opcode.TRY && len(x) == 3:
			copy(x[1:], rel(offs[i], false))
			copy(x[2:], rel(offs[i], false))
		case op == opcode.TRYL && len(x) == 9:
			copy(x[1:], rel(offs[i], true))
			copy(x[5:], rel(offs[i], true))
		case (op == opcode.PUSHA || op == opcode.CALLL || op == opcode.ENDTRYL || (op >= opcode.JMP && op <= opcode.JMPLEL && (op-opcode.JMP)%2 == 1)) && len(x) == 5:
			copy(x[1:], rel(offs[i], true))
		case (op >= opcode.JMP && op <= opcode.CALL || op == opcode.ENDTRY) && len(x) == 2:
			copy(x[1:], rel(offs[i], false))
		}
	}
	// half of the programs get exactly one defect: one jump-like operand moved off its boundary by one
	if r.chance(50) {
		var cand [][2]int // instruction index, operand byte index
		for i, x := range ins {
			op := opcode.Opcode(x[0])
			switch {
			case op == opcode.TRY && len(x) == 3:
				cand = append(cand, [2]int{i, 1}, [2]int{i, 2})
			case op == opcode.TRYL && len(x) == 9:
				cand = append(cand, [2]int{i, 1}, [2]int{i, 5})
			case len(x) == 5 && (op == opcode.PUSHA || op == opcode.CALLL || op == opcode.ENDTRYL || (op >= opcode.JMP && op <= opcode.JMPLEL)):
				cand = append(cand, [2]int{i, 1})
			case len(x) == 2 && (op >= opcode.JMP && op <= opcode.CALL || op == opcode.ENDTRY):
				cand = append(cand, [2]int{i, 1})
			}
		}
		if len(cand) > 0 {
			c := pick(r, cand)
			ins[c[0]][c[1]]++
		}
	}
	var b []byte
	for _, x := range ins {
		b = append(b, x...)
	}
	return b
}

func c12HexOps(ops [][]byte) []string {
	out := make([]string, len(ops))
	for i, o := range ops {
		out[i] = hx(o)
	}
	return out
}

func runC12(args []string) error {
	cf, fs := parseCommon("c12", args)
	fs.Parse(args)
	co := newCaseOut(cf.out, "Harness.C12", "Z",
		"arbitrary byte strings, mutated programs and deep well-typed programs grown against the actual VM state of a shadow run "+
			"(shared/nested compounds, all collection instructions, slots, CALL constructs, TRY/CATCH/FINALLY with throws, unloading); "+
			"a case is non-trivial when the real VM executed at least 3 instructions and its item counter reached 2; distinct by Coq term")
	co.shard = 60
	if cf.replay != "" {
		cases, err := readReplay(cf.replay)
		if err != nil {
			return err
		}
		for _, c := range cases {
			var x struct {
				Kind  string   `json:"kind"`
				Input c12Input `json:"input"`
			}
			if err := json.Unmarshal(c, &x); err != nil {
				return err
			}
			if x.Kind == "methods" {
				c12RunMethods(co, "replay", x.Input)
				continue
			}
			c12Run(co, x.Kind, "replay", x.Input)
		}
		return co.finish()
	}
	r := newRng(cf.seed)
	n := cf.n
	var keep [][][]byte
	// every VM limit at limit-1, limit, limit+1 (deterministic)
	for _, b := range c13Boundaries() {
		c12Run(co, "limits", b.tag, c12Input{Script: hx(b.script), Base: b.base, Limit: b.limit})
	}
	// deep programs
	for i := 0; i < n; i++ {
		ops := c12Deep(r, 10+r.intn(70))
		keep = append(keep, ops)
		base, limit := c13Bases(r, false)
		if r.chance(15) { // sometimes let the gas run out in the middle
			base, limit = 300000, int64(30*(20+r.intn(3000)))
		}
		c12Run(co, "deep", "gen", c12Input{Ops: c12HexOps(ops), Base: base, Limit: limit})
	}
	// catchable failure paths with compound operands, in a loop
	nloop := 60
	if n >= 1000 {
		nloop = 400
	}
	for _, in := range c12CatchLoops(nloop) {
		c12Run(co, "deep", "catch-loop", in)
	}
	// gas charged by a SYSCALL handler at the boundary of the limit; a few fixed scripts under limit 0
	c12SyscallGas(co)
	for _, b := range [][]byte{{}, {byte(opcode.RET)}, {byte(opcode.PUSH1)}, {byte(opcode.NOP), byte(opcode.NOP)}, {byte(opcode.JMP), 0}, {byte(opcode.PUSH1), byte(opcode.PUSH1), byte(opcode.ADD)}} {
		c12GasSweep(co, b)
	}
	// several scripts loaded on top of each other, exceptions across script boundaries
	for _, in := range c12MultiBoundary() {
		c12Run(co, "multi", "unwind", in)
	}
	// the limits through every context-pushing entry point
	for _, in := range c12DepthPrograms(n >= 1000) {
		c12Run(co, "multi", "depth", in)
	}
	for _, in := range c12OtherLimits() {
		c12Run(co, "multi", "limits", in)
	}
	for i := 0; i < n/3; i++ {
		c12Run(co, "multi", "gen", c12GenMulti(r))
	}
	// arbitrary byte strings
	all := c13AllOps()
	for i := 0; i < n/2; i++ {
		var b []byte
		switch r.intn(3) {
		case 0:
			b = r.bytes(1 + r.intn(40))
		case 1: // random valid opcodes with random operands
			a := &c13Asm{}
			for k := 1 + r.intn(12); k > 0; k-- {
				c13RandInstr(a, r, all)
			}
			b = a.b
		default: // valid opcodes only, no operands respected
			for k := 1 + r.intn(30); k > 0; k-- {
				b = append(b, byte(pick(r, all)))
			}
		}
		base, limit := c13Bases(r, true)
		c12Run(co, "bytes", "random", c12Input{Script: hx(b), Base: base, Limit: limit})
	}
	// programs built to pass the static check: random instructions, every jump operand pointing at a boundary
	for i := 0; i < n/2; i++ {
		b := c12StaticProg(r, all)
		base, limit := c13Bases(r, true)
		c12Run(co, "bytes", "staticgen", c12Input{Script: hx(b), Base: base, Limit: limit})
		if i%2 == 0 { // the same check with a methods bit field (Management.checkScriptAndMethods)
			c12RunMethods(co, "staticgen", c12Input{Script: hx(b), Base: base, Limit: limit, Methods: c12GenMethods(r, b)})
		}
	}
	// mutated deep programs: byte flips, truncation, instruction deletion/duplication
	for i := 0; i < n/2 && len(keep) > 0; i++ {
		ops := pick(r, keep)
		var b []byte
		for _, o := range ops {
			if r.chance(4) {
				continue
			}
			b = append(b, o...)
			if r.chance(3) {
				b = append(b, o...)
			}
		}
		for k := r.intn(3); k > 0 && len(b) > 0; k-- {
			b[r.intn(len(b))] = byte(r.next())
		}
		if r.chance(20) && len(b) > 2 {
			b = b[:r.intn(len(b))]
		}
		base, limit := c13Bases(r, true)
		c12Run(co, "bytes", "mutated", c12Input{Script: hx(b), Base: base, Limit: limit})
	}
	_ = big.NewInt
	return co.finish()
}
