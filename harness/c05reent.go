package main

// C05: payment callbacks that RE-ENTER the native contract whose operation is in progress.  Two instances of a receiver
// contract (accounts 30, 31) whose onNEP17Payment, as configured in its storage (operation "rcfg"), (1) deposits the GAS
// it just got to Notary for a chosen account (the withdrawing one: a roll-over inside Notary.withdraw), (2) transfers the
// same token on to a chosen account (back to the sender / a third party), (3) votes / removes its vote, (4) withdraws its
// own Notary deposit (a withdraw nested in a withdraw / transfer).  They receive withdrawals, NEO and GAS transfers and,
// holding NEO, GAS claims.  The model does not follow contract code, so these histories are evaluated on the real chain
// only (every clause of c05Invariants on the raw dump after every block; Coq case CDirect).

import (
	"encoding/json"
	"errors"
	"fmt"
	"strings"

	"github.com/nspcc-dev/neo-go/pkg/compiler"
	"github.com/nspcc-dev/neo-go/pkg/core/state"
	"github.com/nspcc-dev/neo-go/pkg/core/transaction"
	"github.com/nspcc-dev/neo-go/pkg/neotest"
	"github.com/nspcc-dev/neo-go/pkg/smartcontract/manifest"
	"github.com/nspcc-dev/neo-go/pkg/util"
)

const c05SrcReenter = `package reenter
import (
	"github.com/nspcc-dev/neo-go/pkg/interop"
	"github.com/nspcc-dev/neo-go/pkg/interop/contract"
	"github.com/nspcc-dev/neo-go/pkg/interop/runtime"
	"github.com/nspcc-dev/neo-go/pkg/interop/storage"
)
func Configure(mode int, acct interop.Hash160, key any, till int, notary interop.Hash160, neo interop.Hash160) {
	ctx := storage.GetContext()
	storage.Put(ctx, "mode", mode)
	storage.Put(ctx, "acct", acct)
	if key == nil {
		storage.Delete(ctx, "key")
	} else {
		storage.Put(ctx, "key", key.([]byte))
	}
	storage.Put(ctx, "till", till)
	storage.Put(ctx, "notary", notary)
	storage.Put(ctx, "neo", neo)
}
func OnNEP17Payment(from interop.Hash160, amount int, data any) {
	ctx := storage.GetContext()
	m := storage.Get(ctx, "mode")
	if m == nil || storage.Get(ctx, "busy") != nil {
		return
	}
	storage.Put(ctx, "busy", 1)
	mode := m.(int)
	tok := runtime.GetCallingScriptHash()
	me := runtime.GetExecutingScriptHash()
	acct := storage.Get(ctx, "acct").(interop.Hash160)
	notary := storage.Get(ctx, "notary").(interop.Hash160)
	neo := storage.Get(ctx, "neo").(interop.Hash160)
	if mode == 1 && !tok.Equals(neo) && amount > 0 {
		contract.Call(tok, "transfer", contract.All, me, notary, amount, []any{acct, storage.Get(ctx, "till").(int)})
	}
	if mode == 2 {
		contract.Call(tok, "transfer", contract.All, me, acct, amount, nil)
	}
	if mode == 3 {
		contract.Call(neo, "vote", contract.All, me, storage.Get(ctx, "key"))
	}
	if mode == 4 {
		contract.Call(notary, "withdraw", contract.All, me, acct)
	}
	storage.Delete(ctx, "busy")
}
`

const (
	c05AReenterA = 30
	c05AReenterB = 31
)

var c05Reenter [2]*neotest.Contract

func c05ReenterContract(t *c05TB, sender util.Uint160, i int) (*neotest.Contract, error) {
	if i < 0 || i > 1 {
		return nil, errors.New("no such re-entering contract")
	}
	if c05Reenter[i] == nil {
		err := c05Try(func() {
			c05InHarnessDir(func() {
				c05Reenter[i] = neotest.CompileSource(t, sender, strings.NewReader(c05SrcReenter), &compiler.Options{
					Name: fmt.Sprintf("verif-reenter-%d", i), NoPermissionsCheck: true, NoEventsCheck: true,
					Permissions: []manifest.Permission{*manifest.NewPermission(manifest.PermissionWildcard)}})
			})
		})
		if err != nil {
			return nil, err
		}
	}
	ct := *c05Reenter[i]
	ct.Hash = state.CreateContractHash(sender, ct.NEF.Checksum, ct.Manifest.Name)
	return &ct, nil
}

// c05ReentTx: "rdeploy" (A = instance 0/1, deployed by the validators' account) and "rcfg" (F signs; A = instance, K = mode,
// To = the account of the callback's action, W = the account whose key is voted for (0 = none), N = till of the deposit)
func (c *c05Chain) c05ReentTx(op c05Op) (*transaction.Transaction, error) {
	ct, err := c05ReenterContract(c.t, c.u.hashes[c05AValidators], int(op.A))
	if err != nil {
		return nil, err
	}
	switch op.T {
	case "rdeploy":
		mb, _ := json.Marshal(ct.Manifest)
		nb, _ := ct.NEF.Bytes()
		return c.mkTx(c.mgmtH, "deploy", []any{nb, mb, nil}, 20_0000_0000, nil, c05AValidators)
	case "rcfg":
		var key any
		if k, ok := c.u.keyOfAcct[op.W]; ok && op.W > 0 {
			key = c.u.keys[k].Bytes()
		}
		to := op.To
		var acct util.Uint160
		switch {
		case to == c05AReenterA || to == c05AReenterB:
			o, err := c05ReenterContract(c.t, c.u.hashes[c05AValidators], to-c05AReenterA)
			if err != nil {
				return nil, err
			}
			acct = o.Hash
		case to >= 0 && to < c05AFixed:
			acct = c.u.hashes[to]
		default:
			return nil, errors.New("rcfg: unknown account")
		}
		return c.mkTx(ct.Hash, "configure", []any{int64(op.K), acct, key, int64(op.N), c.notH, c.neoH}, c05FeeSimple, nil, op.F)
	}
	return nil, errors.New("not a re-entrancy operation")
}

// c05Reentrant generates one history around the two re-entering receivers.
func c05Reentrant(r *rng, c *c05Chain, run *c05Runner, nblocks int) ([]c05Op, error) {
	g := &c05Gen{r: r, c: c, run: run}
	emit := func(ops ...c05Op) error {
		for _, o := range ops {
			if err := g.emit(o); err != nil {
				return err
			}
		}
		return nil
	}
	if err := g.fund(true); err != nil {
		return g.ops, err
	}
	if err := emit(c05Op{T: "rdeploy", A: 0}, c05Op{T: "rdeploy", A: 1}); err != nil {
		return g.ops, err
	}
	// a few candidates, NEO and GAS and a Notary deposit for the two contracts
	for _, a := range c05Signers[:4] {
		if err := emit(c05Op{T: "reg", F: a}); err != nil {
			return g.ops, err
		}
	}
	h0 := int(c.bc.BlockHeight())
	if err := emit(c05Op{T: "nt", F: 0, To: c05AReenterA, A: 5000 + int64(r.intn(5000))}, c05Op{T: "nt", F: 0, To: c05AReenterB, A: 100 + int64(r.intn(5000))},
		c05Op{T: "gt", F: 0, To: c05AReenterA, A: 50_0000_0000}, c05Op{T: "gt", F: 0, To: c05AReenterB, A: 50_0000_0000},
		c05Op{T: "dep", F: 1, To: c05AReenterA, A: 3_0000_0000, N: h0 + 3}, c05Op{T: "dep", F: 2, To: c05AReenterB, A: 4_0000_0000, N: h0 + 3},
		c05Op{T: "blk"}); err != nil {
		return g.ops, err
	}
	rc := func() int { return pick(r, []int{c05AReenterA, c05AReenterB}) }
	for b := 0; b < nblocks; b++ {
		h := int(c.bc.BlockHeight())
		// deposits that expire soon (withdrawable two or three blocks later), own and for the contracts
		for i := 0; i < r.intn(3); i++ {
			a := pick(r, c05Signers)
			to := 0
			if r.chance(25) {
				to = rc()
			}
			if err := emit(c05Op{T: "dep", F: a, To: to, A: int64(2000_0000 + r.intn(3_0000_0000)), N: h + 2 + r.intn(2)}); err != nil {
				return g.ops, err
			}
		}
		// reconfigure the receivers
		for _, inst := range []int{0, 1} {
			if !r.chance(70) {
				continue
			}
			op := c05Op{T: "rcfg", F: pick(r, c05Signers), A: int64(inst), K: pick(r, []int{0, 1, 1, 1, 2, 2, 3, 3, 4, 4}), N: h + 4 + r.intn(20)}
			deps := g.depositors(true)
			switch op.K {
			case 1: // deposit for: an account about to withdraw, any account, the contract itself, the other contract
				op.To = pick(r, c05Signers)
				if len(deps) > 0 && r.chance(70) {
					op.To = pick(r, deps)
				}
				if r.chance(20) {
					op.To = rc()
				}
			case 2:
				op.To = pick(r, []int{pick(r, c05Signers), pick(r, c05Signers), c05AAcceptor, c05ANotary, rc()})
			case 3:
				if reg := g.registered(); len(reg) > 0 && r.chance(75) {
					op.W = c.u.acctOfKey[pick(r, reg)]
				}
			case 4:
				op.To = pick(r, []int{pick(r, c05Signers), rc(), rc()})
			}
			if err := emit(op); err != nil {
				return g.ops, err
			}
		}
		if r.chance(50) {
			if err := emit(c05Op{T: "blk"}); err != nil {
				return g.ops, err
			}
		}
		// triggers
		for i := 0; i < 1+r.intn(4); i++ {
			a := pick(r, c05Signers)
			var op c05Op
			switch x := r.intn(100); {
			case x < 45:
				if l := g.depositors(true); len(l) > 0 && r.chance(85) {
					a = pick(r, l)
				}
				op = c05Op{T: "wd", F: a, To: rc()}
			case x < 65:
				op = c05Op{T: "nt", F: a, To: rc(), A: pick(r, []int64{0, 1, int64(r.intn(50)), g.amount(g.neoBal(a))})}
			case x < 85:
				op = c05Op{T: "gt", F: a, To: rc(), A: pick(r, []int64{0, 1, 2000_0000 + int64(r.intn(5_0000_0000))})}
			case x < 92:
				op = c05Op{T: "vote", F: a, K: -1}
				if reg := g.registered(); len(reg) > 0 && r.chance(80) {
					op.K = pick(r, reg)
				}
			default:
				op = g.randomOp()
			}
			if err := emit(op); err != nil {
				return g.ops, err
			}
		}
		if err := emit(c05Op{T: "blk"}); err != nil {
			return g.ops, err
		}
	}
	return g.ops, nil
}

var _ = transaction.Transaction{}
