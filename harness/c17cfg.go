package main

// C17, seventh round: wire formats that depend on NETWORK CONFIGURATION, through NESTED decoders.
//
// The only configuration value that changes a serialised form is StateRootInHeader (looked for: P2PSigExtensions,
// NotaryAssisted / hard forks change what is VALID, never how a value is laid out). It reaches:
//   block.Header / block.Block (StateRootEnabled), block.NewTrimmedFromReader(sr), payload.Headers{StateRootInHeader},
//   payload.MerkleBlock (embeds a header), network.Message{StateRootInHeader} (block, headers, merkleblock),
//   dao.Simple (Version.StateRootInHeader -> trimmed blocks; GetWrapped / GetPrivate copies),
//   consensus: Payload -> message -> prepareRequest, message -> recoveryMessage -> (embedded) message -> prepareRequest.
// Kind "cfgwire": every one of them in BOTH configuration values, from the top-level type and nested in every container
// that can hold it, with non-zero state roots, with and without the optional parts; encode -> decode -> encode byte
// equality, hash equality, field equality. The consensus bodies are laid out here by hand from a description (an
// independent encoder: pkg/consensus keeps its types unexported) and compared with what the package re-encodes FROM ITS
// FIELDS (Payload.Data reset to nil: otherwise the received bytes are written back unchanged and nothing is checked).

import (
	"bytes"
	"fmt"
	"reflect"
	"strings"

	"github.com/nspcc-dev/dbft"
	"github.com/nspcc-dev/neo-go/pkg/config/netmode"
	"github.com/nspcc-dev/neo-go/pkg/consensus"
	"github.com/nspcc-dev/neo-go/pkg/core/block"
	"github.com/nspcc-dev/neo-go/pkg/core/dao"
	"github.com/nspcc-dev/neo-go/pkg/core/storage"
	"github.com/nspcc-dev/neo-go/pkg/core/transaction"
	"github.com/nspcc-dev/neo-go/pkg/io"
	"github.com/nspcc-dev/neo-go/pkg/network"
	"github.com/nspcc-dev/neo-go/pkg/network/payload"
	"github.com/nspcc-dev/neo-go/pkg/util"
)

// ---- description of a consensus message (everything hex / numbers: replayable, printable as a Coq term) ----

type c17PReq struct {
	Version uint32   `json:"version"`
	Prev    string   `json:"prev"`
	TS      uint64   `json:"ts"`
	Nonce   uint64   `json:"nonce"`
	Hashes  []string `json:"hashes"`
	Root    string   `json:"root"` // written only with StateRootInHeader
}

type c17CVC struct {
	Validator, View byte
	TS              uint64
	Inv             string
}
type c17CC struct {
	View, Validator byte
	Sig, Inv        string
}
type c17PC struct {
	Validator byte
	Inv       string
}
type c17Emb struct {
	Index           uint32
	Validator, View byte
	Req             c17PReq
}
type c17Rec struct {
	CVs      []c17CVC
	Emb      *c17Emb // the embedded PrepareRequest message, if present
	PrepHash string  // without it: the preparation hash, or "" for none
	Preps    []c17PC
	Commits  []c17CC
}
type c17Cons struct {
	SR              bool
	Type            byte
	Index           uint32
	Validator, View byte
	TS              uint64   // change view, recovery request
	Reason          byte     // change view
	Rejected        []string // change view with reason 3 / 4
	Req             *c17PReq // prepare request
	Hash            string   // prepare response
	Sig             string   // commit
	Rec             *c17Rec  // recovery message
}

func c17WritePReq(w *io.BinWriter, q *c17PReq, sr bool) {
	w.WriteU32LE(q.Version)
	w.WriteBytes(unhx(q.Prev))
	w.WriteU64LE(q.TS)
	w.WriteU64LE(q.Nonce)
	w.WriteVarUint(uint64(len(q.Hashes)))
	for _, h := range q.Hashes {
		w.WriteBytes(unhx(h))
	}
	if sr {
		w.WriteBytes(unhx(q.Root))
	}
}

func c17WriteMsgHead(w *io.BinWriter, typ byte, index uint32, validator, view byte) {
	w.WriteB(typ)
	w.WriteU32LE(index)
	w.WriteB(validator)
	w.WriteB(view)
}

// the bytes of Extensible.Data for the described message under configuration m.SR
func (m *c17Cons) layout() []byte {
	w := io.NewBufBinWriter()
	c17WriteMsgHead(w.BinWriter, m.Type, m.Index, m.Validator, m.View)
	switch m.Type {
	case 0x00:
		w.WriteU64LE(m.TS)
		w.WriteB(m.Reason)
		if m.Reason == 3 || m.Reason == 4 {
			w.WriteVarUint(uint64(len(m.Rejected)))
			for _, h := range m.Rejected {
				w.WriteBytes(unhx(h))
			}
		}
	case 0x20:
		c17WritePReq(w.BinWriter, m.Req, m.SR)
	case 0x21:
		w.WriteBytes(unhx(m.Hash))
	case 0x30:
		w.WriteBytes(unhx(m.Sig))
	case 0x40:
		w.WriteU64LE(m.TS)
	case 0x41:
		rc := m.Rec
		w.WriteVarUint(uint64(len(rc.CVs)))
		for _, c := range rc.CVs {
			w.WriteB(c.Validator)
			w.WriteB(c.View)
			w.WriteU64LE(c.TS)
			w.WriteVarBytes(unhx(c.Inv))
		}
		if rc.Emb != nil {
			w.WriteB(1)
			c17WriteMsgHead(w.BinWriter, 0x20, rc.Emb.Index, rc.Emb.Validator, rc.Emb.View)
			c17WritePReq(w.BinWriter, &rc.Emb.Req, m.SR)
		} else {
			w.WriteB(0)
			if rc.PrepHash != "" {
				w.WriteVarUint(32)
				w.WriteBytes(unhx(rc.PrepHash))
			} else {
				w.WriteVarUint(0)
			}
		}
		w.WriteVarUint(uint64(len(rc.Preps)))
		for _, p := range rc.Preps {
			w.WriteB(p.Validator)
			w.WriteVarBytes(unhx(p.Inv))
		}
		w.WriteVarUint(uint64(len(rc.Commits)))
		for _, c := range rc.Commits {
			w.WriteB(c.View)
			w.WriteB(c.Validator)
			w.WriteBytes(unhx(c.Sig))
			w.WriteVarBytes(unhx(c.Inv))
		}
	}
	return w.Bytes()
}

// the payload on the wire: the extensible envelope the service builds (ValidBlockStart 0, ValidBlockEnd = height)
func (m *c17Cons) envelope(sender util.Uint160, inv, ver []byte) *payload.Extensible {
	return &payload.Extensible{Category: payload.ConsensusCategory, ValidBlockStart: 0, ValidBlockEnd: m.Index, Sender: sender, Data: m.layout(),
		Witness: transaction.Witness{InvocationScript: inv, VerificationScript: ver}}
}

func c17GenPReq(r *rng, sr bool, zeroRoot bool) c17PReq {
	q := c17PReq{Version: 0, Prev: hx(r.bytes(32)), TS: r.next() >> 20, Nonce: r.next(), Root: hx(make([]byte, 32))}
	for i, n := 0, pick(r, []int{0, 1, 2, 3}); i < n; i++ {
		q.Hashes = append(q.Hashes, hx(r.bytes(32)))
	}
	if sr && !zeroRoot {
		q.Root = hx(r.bytes(32))
	}
	return q
}

// variant: 0..5 the six message types; 6.. recovery variants (see below); zeroRoot: an all-zero state root
func c17GenCons(r *rng, sr bool, variant int, zeroRoot bool) *c17Cons {
	m := &c17Cons{SR: sr, Index: uint32(1 + r.intn(100000)), Validator: byte(r.intn(7)), View: byte(r.intn(3))}
	inv := func() string { return hx(append([]byte{0x0c, 64}, r.bytes(64)...)) }
	switch variant {
	case 0:
		m.Type, m.TS, m.Reason = 0x00, r.next(), byte(pick(r, []int{0, 1, 2, 3, 4, 5}))
		if m.Reason == 3 || m.Reason == 4 {
			for i, n := 0, r.intn(3); i < n; i++ {
				m.Rejected = append(m.Rejected, hx(r.bytes(32)))
			}
		}
	case 1:
		q := c17GenPReq(r, sr, zeroRoot)
		m.Type, m.Req = 0x20, &q
	case 2:
		m.Type, m.Hash = 0x21, hx(r.bytes(32))
	case 3:
		m.Type, m.Sig = 0x30, hx(r.bytes(64))
	case 4:
		m.Type, m.TS = 0x40, r.next()
	default:
		m.Type = 0x41
		rc := &c17Rec{}
		primary := byte(r.intn(7))
		kind := (variant - 5) % 4 // 0: with the PrepareRequest; 1: preparation hash only; 2: neither; 3: with the PrepareRequest, nothing else
		if kind != 3 {
			for i, n := 0, r.intn(3); i < n; i++ {
				rc.CVs = append(rc.CVs, c17CVC{Validator: byte(r.intn(7)), View: byte(r.intn(3)), TS: r.next(), Inv: inv()})
			}
		}
		switch kind {
		case 0, 3:
			rc.Emb = &c17Emb{Index: pick(r, []uint32{0, m.Index}), Validator: pick(r, []byte{0, primary}), View: m.View, Req: c17GenPReq(r, sr, zeroRoot)}
			rc.Preps = append(rc.Preps, c17PC{Validator: primary, Inv: inv()})
		case 1:
			rc.PrepHash = hx(r.bytes(32))
		}
		if kind != 3 {
			for i, n := 0, r.intn(3); i < n; i++ {
				rc.Preps = append(rc.Preps, c17PC{Validator: byte(r.intn(7)), Inv: inv()})
			}
			for i, n := 0, r.intn(3); i < n; i++ {
				rc.Commits = append(rc.Commits, c17CC{View: m.View, Validator: byte(r.intn(7)), Sig: hx(r.bytes(64)), Inv: inv()})
			}
		}
		m.Rec = rc
	}
	return m
}

// ---- Coq term of a description (Codec/ConsensusCodec.v) ----

func coqHexList(hs []string) string {
	var t []string
	for _, h := range hs {
		t = append(t, coqBytes(unhx(h)))
	}
	return coqList(t)
}

func (q *c17PReq) coq() string {
	return fmt.Sprintf("(PReq %d %s %d %d %s %s)", q.Version, coqBytes(unhx(q.Prev)), q.TS, q.Nonce, coqHexList(q.Hashes), coqBytes(unhx(q.Root)))
}

func (m *c17Cons) coq() string {
	var body string
	switch m.Type {
	case 0x00:
		body = fmt.Sprintf("(BChangeView %d %d %s)", m.TS, m.Reason, coqHexList(m.Rejected))
	case 0x20:
		body = "(BPrepareRequest " + m.Req.coq() + ")"
	case 0x21:
		body = "(BPrepareResponse " + coqBytes(unhx(m.Hash)) + ")"
	case 0x30:
		body = "(BCommit " + coqBytes(unhx(m.Sig)) + ")"
	case 0x40:
		body = fmt.Sprintf("(BRecoveryRequest %d)", m.TS)
	default:
		rc := m.Rec
		var cvs, preps, commits []string
		for _, c := range rc.CVs {
			cvs = append(cvs, fmt.Sprintf("(CVC %d %d %d %s)", c.Validator, c.View, c.TS, coqBytes(unhx(c.Inv))))
		}
		for _, p := range rc.Preps {
			preps = append(preps, fmt.Sprintf("(PC %d %s)", p.Validator, coqBytes(unhx(p.Inv))))
		}
		for _, c := range rc.Commits {
			commits = append(commits, fmt.Sprintf("(CC %d %d %s %s)", c.View, c.Validator, coqBytes(unhx(c.Sig)), coqBytes(unhx(c.Inv))))
		}
		emb, ph := "None", "None"
		if rc.Emb != nil {
			emb = fmt.Sprintf("(Some (Emb %d %d %d %s))", rc.Emb.Index, rc.Emb.Validator, rc.Emb.View, rc.Emb.Req.coq())
		} else if rc.PrepHash != "" {
			ph = "(Some " + coqBytes(unhx(rc.PrepHash)) + ")"
		}
		body = fmt.Sprintf("(BRecovery (Recovery %s %s %s %s %s))", coqList(cvs), emb, ph, coqList(preps), coqList(commits))
	}
	return fmt.Sprintf("(CMessage %d %d %d %s)", m.Index, m.Validator, m.View, body)
}

// ---- the laws ----

const c17Magic = netmode.Magic(0x4e454f33)

func c17ValidatorKeys() []dbft.PublicKey {
	var out []dbft.PublicKey
	for _, k := range c17Keys()[:7] {
		out = append(out, k)
	}
	return out
}

func c17DecodeCons(b []byte, sr bool) (*consensus.Payload, error) {
	p := consensus.NewPayload(c17Magic, sr)
	r := io.NewBinReaderFromBuf(b)
	p.DecodeBinary(r)
	return p, r.Err
}

// the payload re-encoded FROM ITS FIELDS (the data of the envelope is rebuilt from the decoded message)
func c17ReencodeCons(p *consensus.Payload) ([]byte, error) {
	p.Data = nil
	return c17Enc(p)
}

func c17CfgConsensus(x *c17Runner, in c17Input) {
	co := x.co
	r := newRng(in.Seed*7368787 + uint64(in.Idx))
	sr := in.N&1 == 1
	zero := in.N&2 == 2
	variant := in.N >> 2
	m := c17GenCons(r, sr, variant, zero)
	bad := func(note string, impl any) {
		co.violation("cfgwire", fmt.Sprintf("consensus (StateRootInHeader=%v, type 0x%02x): %s", sr, m.Type, note), in, impl)
	}
	vals := c17ValidatorKeys()
	sender := c17Keys()[m.Validator].GetScriptHash()
	env := m.envelope(sender, append([]byte{0x0c, 64}, r.bytes(64)...), c17Keys()[m.Validator].GetVerificationScript())
	wire := c17MustEnc(env)
	p, err := c17DecodeCons(wire, sr)
	if err != nil {
		bad("a payload laid out for this configuration is refused: "+err.Error(), hx(env.Data))
		return
	}
	if p.Hash() != env.Hash() {
		bad("hash of the decoded payload differs from the hash of the envelope", nil)
	}
	if byte(p.Type()) != m.Type || p.Height() != m.Index || p.ValidatorIndex() != uint16(m.Validator) || p.ViewNumber() != m.View {
		bad("message header fields differ after decoding", fmt.Sprint(p.Type(), p.Height(), p.ValidatorIndex(), p.ViewNumber()))
	}
	hashesEq := func(a []util.Uint256, b []string) bool {
		if len(a) != len(b) {
			return false
		}
		for i := range a {
			if hx(a[i][:]) != b[i] {
				return false
			}
		}
		return true
	}
	switch m.Type {
	case 0x00:
		cv := p.GetChangeView()
		if byte(cv.Reason()) != m.Reason || cv.NewViewNumber() != m.View+1 {
			bad("ChangeView fields differ after decoding", nil)
		}
	case 0x20:
		q := p.GetPrepareRequest()
		if q.Timestamp() != m.Req.TS*1000000 || q.Nonce() != m.Req.Nonce || !hashesEq(q.TransactionHashes(), m.Req.Hashes) {
			bad("PrepareRequest fields differ after decoding", nil)
		}
	case 0x21:
		if h := p.GetPrepareResponse().PreparationHash(); hx(h[:]) != m.Hash {
			bad("PrepareResponse hash differs after decoding", nil)
		}
	case 0x30:
		if hx(p.GetCommit().Signature()) != m.Sig {
			bad("Commit signature differs after decoding", nil)
		}
	case 0x40:
		if p.GetRecoveryRequest().Timestamp() != m.TS*1000000 {
			bad("RecoveryRequest timestamp differs after decoding", nil)
		}
	case 0x41:
		c17CfgRecovery(m, p, vals, bad)
	}
	// re-encoding from the fields: the same bytes (so every field, the state root included, was read and kept), and
	// what it decodes to has the same hash
	re, err := c17ReencodeCons(p)
	if err != nil {
		bad("decoded payload cannot be re-encoded from its fields: "+err.Error(), nil)
		return
	}
	if !bytes.Equal(re, wire) {
		bad("decode then encode (from the fields) changes the bytes: "+c17DiffClass(wire, re), map[string]string{"wire": hx(wire), "reencoded": hx(re)})
	}
	p2, err := c17DecodeCons(re, sr)
	if err != nil {
		bad("the node refuses a payload it has just encoded: "+err.Error(), hx(re))
	} else if p2.Hash() != env.Hash() {
		bad("hash changes through decode;encode;decode", nil)
	}
	term := fmt.Sprintf("direct cfgwire consensus %d %d %d", in.Seed, in.Idx, in.N)
	if x.mode == "c17" { // the model's layout of the described message against the data the package encoded from its fields
		term = fmt.Sprintf("CConsMsg %v %s %s", sr, m.coq(), coqBytes(p.Data))
	}
	co.add("cfgwire", fmt.Sprintf("consensus/sr=%v/0x%02x", sr, m.Type), true, in, hx(re), term)
}

// what the recovery glue rebuilds from a decoded recovery message
func c17CfgRecovery(m *c17Cons, p *consensus.Payload, vals []dbft.PublicKey, bad func(string, any)) {
	rc := m.Rec
	rec := p.GetRecoveryMessage()
	ph := rec.PreparationHash()
	switch {
	case rc.Emb != nil || rc.PrepHash == "":
		if ph != nil {
			bad("recovery: a preparation hash appears that was not sent", hx(ph[:]))
		}
	default:
		if ph == nil || hx(ph[:]) != rc.PrepHash {
			bad("recovery: the preparation hash is lost or changed", nil)
		}
	}
	sub := func(typ byte, validator, view byte) *c17Cons {
		return &c17Cons{SR: m.SR, Type: typ, Index: m.Index, Validator: validator, View: view}
	}
	data := func(q dbft.ConsensusPayload[util.Uint256]) []byte {
		pl := q.(*consensus.Payload)
		pl.Hash() // encodes the data
		return pl.Data
	}
	cvs := rec.GetChangeViews(p, vals)
	if len(cvs) != len(rc.CVs) {
		bad(fmt.Sprintf("recovery: %d change views sent, %d restored", len(rc.CVs), len(cvs)), nil)
	} else {
		for i, c := range rc.CVs {
			want := sub(0x00, c.Validator, c.View)
			want.TS = c.TS
			if !bytes.Equal(data(cvs[i]), want.layout()) || hx(cvs[i].(*consensus.Payload).Witness.InvocationScript) != c.Inv {
				bad("recovery: a restored ChangeView differs from what was sent", nil)
			}
		}
	}
	commits := rec.GetCommits(p, vals)
	if len(commits) != len(rc.Commits) {
		bad(fmt.Sprintf("recovery: %d commits sent, %d restored", len(rc.Commits), len(commits)), nil)
	} else {
		for i, c := range rc.Commits {
			want := sub(0x30, c.Validator, m.View)
			want.Sig = c.Sig
			if !bytes.Equal(data(commits[i]), want.layout()) || hx(commits[i].(*consensus.Payload).Witness.InvocationScript) != c.Inv {
				bad("recovery: a restored Commit differs from what was sent", nil)
			}
		}
	}
	primary := byte(0)
	if len(rc.Preps) > 0 {
		primary = rc.Preps[0].Validator
	}
	req := rec.GetPrepareRequest(p, vals, uint16(primary))
	if rc.Emb == nil {
		if req != nil {
			bad("recovery: a PrepareRequest is restored that was not sent", nil)
		}
	} else {
		if req == nil {
			bad("recovery: the PrepareRequest that was sent is not restored", nil)
		} else {
			want := sub(0x20, primary, m.View)
			want.Req = &rc.Emb.Req
			if got := data(req); !bytes.Equal(got, want.layout()) {
				bad("recovery: the restored PrepareRequest differs from what was sent ("+c17DiffClass(want.layout(), got)+")", map[string]string{"sent": hx(want.layout()), "restored": hx(got)})
			}
		}
	}
	resps := rec.GetPrepareResponses(p, vals)
	wantResps := 0
	if rc.Emb == nil && rc.PrepHash != "" {
		wantResps = len(rc.Preps)
	}
	// (with the PrepareRequest inside, the preparation hash is completed by the service from the restored request;
	//  here it stays nil, so no responses are restored)
	if len(resps) != wantResps {
		bad(fmt.Sprintf("recovery: %d preparations expected to be restored, %d restored", wantResps, len(resps)), nil)
	} else {
		for i := range resps {
			want := sub(0x21, rc.Preps[i].Validator, m.View)
			want.Hash = rc.PrepHash
			if !bytes.Equal(data(resps[i]), want.layout()) {
				bad("recovery: a restored PrepareResponse differs from what was sent", nil)
			}
		}
	}
}

// a recovery message ASSEMBLED by the package (AddPayload) from decoded payloads, encoded, decoded again: the
// PrepareRequest it restores has the hash of the original PrepareRequest (both configurations)
func c17CfgRecoveryAssembled(x *c17Runner, in c17Input) {
	co := x.co
	r := newRng(in.Seed*15485863 + uint64(in.Idx))
	sr := in.N&1 == 1
	zero := in.N&2 == 2
	bad := func(note string, impl any) {
		co.violation("cfgwire", fmt.Sprintf("consensus recovery assembled by AddPayload (StateRootInHeader=%v): %s", sr, note), in, impl)
	}
	vals := c17ValidatorKeys()
	ks := c17Keys()
	primary := byte(r.intn(7))
	index := uint32(1 + r.intn(100000))
	view := byte(r.intn(3))
	mk := func(m *c17Cons) *consensus.Payload {
		m.SR, m.Index, m.View = sr, index, view
		env := m.envelope(ks[m.Validator].GetScriptHash(), append([]byte{0x0c, 64}, r.bytes(64)...), ks[m.Validator].GetVerificationScript())
		p, err := c17DecodeCons(c17MustEnc(env), sr)
		if err != nil {
			panic("harness: own consensus payload does not decode: " + err.Error())
		}
		return p
	}
	q := c17GenPReq(r, sr, zero)
	reqP := mk(&c17Cons{Type: 0x20, Validator: primary, Req: &q})
	holder := mk(&c17Cons{Type: 0x41, Validator: byte(r.intn(7)), Rec: &c17Rec{}})
	rec := holder.GetRecoveryMessage()
	rec.AddPayload(reqP)
	nResp := r.intn(3)
	for i := 0; i < nResp; i++ {
		h := reqP.Hash()
		rec.AddPayload(mk(&c17Cons{Type: 0x21, Validator: byte((int(primary) + 1 + i) % 7), Hash: hx(h[:])}))
	}
	nCommit := r.intn(3)
	for i := 0; i < nCommit; i++ {
		rec.AddPayload(mk(&c17Cons{Type: 0x30, Validator: byte(i), Sig: hx(r.bytes(64))}))
	}
	wire, err := c17ReencodeCons(holder)
	if err != nil {
		bad("cannot be encoded: "+err.Error(), nil)
		return
	}
	back, err := c17DecodeCons(wire, sr)
	if err != nil {
		bad("the node refuses a recovery message it has just assembled and encoded: "+err.Error(), hx(wire))
		return
	}
	rec2 := back.GetRecoveryMessage()
	req := rec2.GetPrepareRequest(back, vals, uint16(primary))
	if req == nil {
		bad("the PrepareRequest put into the recovery message is not restored", nil)
	} else if req.Hash() != reqP.Hash() {
		rp := req.(*consensus.Payload)
		bad("the restored PrepareRequest has another hash than the PrepareRequest put in", map[string]string{"original data": hx(reqP.Data), "restored data": hx(rp.Data)})
	}
	if n := len(rec2.GetCommits(back, vals)); n != nCommit {
		bad(fmt.Sprintf("%d commits put in, %d restored", nCommit, n), nil)
	}
	re2, err := c17ReencodeCons(back)
	if err != nil || !bytes.Equal(re2, wire) {
		bad("decode then encode (from the fields) changes the bytes: "+c17DiffClass(wire, re2), nil)
	}
	if x.mode != "c17" {
		co.add("cfgwire", fmt.Sprintf("consensus-assembled/sr=%v", sr), true, in, hx(wire), fmt.Sprintf("direct cfgwire assembled %d %d %d", in.Seed, in.Idx, in.N))
	}
}

// ---- headers and blocks: top level and nested ----

func c17HeaderEq(a, b *block.Header) string {
	if a.Hash() != b.Hash() {
		return "hash"
	}
	if a.StateRootEnabled != b.StateRootEnabled {
		return "StateRootEnabled"
	}
	if a.PrevStateRoot != b.PrevStateRoot {
		return "PrevStateRoot"
	}
	if a.Version != b.Version || a.PrevHash != b.PrevHash || a.MerkleRoot != b.MerkleRoot || a.Timestamp != b.Timestamp || a.Nonce != b.Nonce ||
		a.Index != b.Index || a.PrimaryIndex != b.PrimaryIndex || a.NextConsensus != b.NextConsensus ||
		!bytes.Equal(a.Script.InvocationScript, b.Script.InvocationScript) || !bytes.Equal(a.Script.VerificationScript, b.Script.VerificationScript) {
		return "a header field"
	}
	return ""
}

func c17BlockEq(a, b *block.Block) string {
	if d := c17HeaderEq(&a.Header, &b.Header); d != "" {
		return d
	}
	if len(a.Transactions) != len(b.Transactions) {
		return "transaction count"
	}
	for i := range a.Transactions {
		if a.Transactions[i].Hash() != b.Transactions[i].Hash() || a.Transactions[i].Size() != b.Transactions[i].Size() {
			return "a transaction"
		}
	}
	return ""
}

func c17CfgBlocks(x *c17Runner, in c17Input) {
	co := x.co
	r := newRng(in.Seed*32452843 + uint64(in.Idx))
	sr := in.N&1 == 1
	bad := func(what, note string, impl any) {
		co.violation("cfgwire", fmt.Sprintf("%s (StateRootInHeader=%v): %s", what, sr, note), in, impl)
	}
	hdr := c17GenHeader(r, sr)
	if in.N&2 == 2 {
		hdr.PrevStateRoot = util.Uint256{} // an all-zero root is a root too
	}
	blk := c17GenBlock(r, sr)
	rt := func(what string, v io.Serializable, fresh func() io.Serializable, same func(a, b io.Serializable) string) []byte {
		b, err := c17Enc(v)
		if err != nil {
			bad(what, "does not encode: "+err.Error(), nil)
			return nil
		}
		w := fresh()
		rd := io.NewBinReaderFromBuf(b)
		w.DecodeBinary(rd)
		if rd.Err != nil {
			bad(what, "own encoding is refused: "+rd.Err.Error(), hx(b))
			return b
		}
		if rd.Len() != 0 {
			bad(what, fmt.Sprintf("decoding leaves %d bytes of its own encoding unread", rd.Len()), nil)
		}
		if d := same(v, w); d != "" {
			bad(what, "decoded value differs from the encoded one in: "+d, nil)
		}
		b2, err := c17Enc(w)
		if err != nil || !bytes.Equal(b, b2) {
			bad(what, "decode then encode changes the bytes: "+c17DiffClass(b, b2), nil)
		}
		return b
	}
	hEq := func(a, b io.Serializable) string { return c17HeaderEq(a.(*block.Header), b.(*block.Header)) }
	bEq := func(a, b io.Serializable) string { return c17BlockEq(a.(*block.Block), b.(*block.Block)) }
	hb := rt("header", hdr, func() io.Serializable { return &block.Header{StateRootEnabled: sr} }, hEq)
	rt("block", blk, func() io.Serializable { return block.New(sr) }, bEq)
	// trimmed block (the stored form)
	{
		w := io.NewBufBinWriter()
		blk.EncodeTrimmed(w.BinWriter)
		tb := w.Bytes()
		got, err := block.NewTrimmedFromReader(sr, io.NewBinReaderFromBuf(tb))
		if err != nil {
			bad("trimmed block", "own encoding is refused: "+err.Error(), nil)
		} else {
			if d := c17HeaderEq(&blk.Header, &got.Header); d != "" {
				bad("trimmed block", "decoded header differs in: "+d, nil)
			}
			w2 := io.NewBufBinWriter()
			got.EncodeTrimmed(w2.BinWriter)
			if !bytes.Equal(tb, w2.Bytes()) {
				bad("trimmed block", "decode then encode changes the bytes", nil)
			}
		}
	}
	// headers payload: the nested header is the top-level header, byte for byte
	h2 := c17GenHeader(r, sr)
	hs := &payload.Headers{Hdrs: []*block.Header{hdr, h2}, StateRootInHeader: sr}
	hsb := rt("headers payload", hs, func() io.Serializable { return &payload.Headers{StateRootInHeader: sr} }, func(a, b io.Serializable) string {
		x, y := a.(*payload.Headers), b.(*payload.Headers)
		if len(x.Hdrs) != len(y.Hdrs) {
			return "count"
		}
		for i := range x.Hdrs {
			if d := c17HeaderEq(x.Hdrs[i], y.Hdrs[i]); d != "" {
				return fmt.Sprintf("header %d: %s", i, d)
			}
		}
		return ""
	})
	if hb != nil && hsb != nil && !bytes.Equal(hsb[1:1+len(hb)], hb) {
		bad("headers payload", "a header nested in the payload is not laid out like the header alone", nil)
	}
	// merkle block: embeds a header
	n := r.intn(5)
	mb := &payload.MerkleBlock{Header: hdr, TxCount: n, Hashes: c17Hashes(r, n), Flags: r.bytes((n + 7) / 8)}
	mEq := func(a, b io.Serializable) string {
		x, y := a.(*payload.MerkleBlock), b.(*payload.MerkleBlock)
		if d := c17HeaderEq(x.Header, y.Header); d != "" {
			return "header: " + d
		}
		if x.TxCount != y.TxCount || !reflect.DeepEqual(x.Hashes, y.Hashes) || !bytes.Equal(x.Flags, y.Flags) {
			return "tx count / hashes / flags"
		}
		return ""
	}
	// (MerkleBlock.DecodeBinary creates its header itself; a caller can only pre-set one, which DecodeBinary replaces)
	rt("merkleblock payload", mb, func() io.Serializable { return &payload.MerkleBlock{Header: &block.Header{StateRootEnabled: sr}} }, mEq)
	// the P2P frame around each of them
	frame := func(what string, cmd network.CommandType, pl payload.Payload, same func(a, b io.Serializable) string) {
		for _, compress := range []bool{false, true} {
			m := network.NewMessage(cmd, pl)
			b, err := m.BytesCompressed(compress)
			if err != nil {
				bad(what, "frame does not encode: "+err.Error(), nil)
				return
			}
			b = bytes.Clone(b)
			got := &network.Message{StateRootInHeader: sr}
			if err := got.Decode(io.NewBinReaderFromBuf(b)); err != nil {
				if compress && strings.Contains(err.Error(), "lz4: ") { // finding F52 (the decompressor refuses a valid block): reported by kind "dec"
					co.hist["cfgwire/frame refused by the lz4 decompressor (F52)"]++
					continue
				}
				bad(what, fmt.Sprintf("own frame (compression allowed: %v) is refused: %s", compress, err.Error()), nil)
				return
			}
			if d := same(pl, got.Payload); d != "" {
				bad(what, "payload decoded from the frame differs in: "+d, nil)
			}
			b2, err := got.BytesCompressed(false)
			want, _ := network.NewMessage(cmd, pl).BytesCompressed(false)
			if err != nil || !bytes.Equal(b2, want) {
				bad(what, "decode then encode of the frame changes the (uncompressed) bytes", nil)
			}
		}
	}
	frame("block in a P2P frame", network.CMDBlock, blk, bEq)
	frame("headers in a P2P frame", network.CMDHeaders, hs, func(a, b io.Serializable) string {
		x, y := a.(*payload.Headers), b.(*payload.Headers)
		if len(x.Hdrs) != len(y.Hdrs) {
			return "count"
		}
		for i := range x.Hdrs {
			if d := c17HeaderEq(x.Hdrs[i], y.Hdrs[i]); d != "" {
				return fmt.Sprintf("header %d: %s", i, d)
			}
		}
		return ""
	})
	frame("merkleblock in a P2P frame", network.CMDMerkleBlock, mb, mEq)
	// consensus payload in an extensible in a frame: the frame gives the envelope, the service decodes the data
	{
		cm := c17GenCons(r, sr, 5+r.intn(4), in.N&2 == 2)
		env := cm.envelope(c17Keys()[cm.Validator].GetScriptHash(), r.bytes(66), r.bytes(35))
		m := network.NewMessage(network.CMDExtensible, env)
		b, _ := m.Bytes()
		got := &network.Message{StateRootInHeader: sr}
		if err := got.Decode(io.NewBinReaderFromBuf(bytes.Clone(b))); err != nil {
			bad("consensus payload in an extensible in a P2P frame", "own frame is refused: "+err.Error(), nil)
		} else {
			e := got.Payload.(*payload.Extensible)
			p, err := c17DecodeCons(c17MustEnc(e), sr)
			if err != nil {
				bad("consensus payload in an extensible in a P2P frame", "the consensus decoder refuses the data taken from the frame: "+err.Error(), nil)
			} else if re, err := c17ReencodeCons(p); err != nil || !bytes.Equal(re, c17MustEnc(env)) {
				bad("consensus payload in an extensible in a P2P frame", "decode then encode (from the fields) changes the bytes", nil)
			}
		}
	}
	// the database layer: a block stored by a dao of this configuration is read back by it and by its copies
	{
		d := dao.NewSimple(storage.NewMemoryStore(), sr)
		if err := d.StoreAsBlock(blk, nil, nil); err != nil {
			bad("dao", "StoreAsBlock fails: "+err.Error(), nil)
		} else {
			for name, dd := range map[string]*dao.Simple{"the dao": d, "GetWrapped": d.GetWrapped(), "GetPrivate": d.GetPrivate()} {
				got, err := dd.GetBlock(blk.Hash())
				if err != nil {
					bad("dao", name+": the stored block is not read back: "+err.Error(), nil)
				} else if dh := c17HeaderEq(&blk.Header, &got.Header); dh != "" {
					bad("dao", name+": the block read back differs in: "+dh, nil)
				}
			}
		}
		for mask := 0; mask < 32; mask++ {
			v := dao.Version{StoragePrefix: storage.KeyPrefix(0x70 + r.intn(2)), StateRootInHeader: mask&1 != 0, P2PSigExtensions: mask&2 != 0, P2PStateExchangeExtensions: mask&4 != 0,
				KeepOnlyLatestState: mask&8 != 0, SaveInvocations: mask&16 != 0, Magic: uint32(r.next()), Value: "0.2.12"}
			var w dao.Version
			if err := w.FromBytes(v.Bytes()); err != nil || w != v {
				bad("dao.Version", fmt.Sprintf("does not read back its own bytes (flags %05b)", mask), nil)
			}
		}
	}
	if x.mode != "c17" {
		co.add("cfgwire", fmt.Sprintf("blocks/sr=%v", sr), true, in, nil, fmt.Sprintf("direct cfgwire blocks %d %d %d", in.Seed, in.Idx, in.N))
	}
}

func c17CfgCase(x *c17Runner, in c17Input) {
	p := catch(func() {
		switch in.Type {
		case "consensus":
			c17CfgConsensus(x, in)
		case "consensus-assembled":
			c17CfgRecoveryAssembled(x, in)
		case "blocks":
			c17CfgBlocks(x, in)
		default:
			panic("unknown cfgwire type " + in.Type)
		}
	})
	if p != "" && !strings.HasPrefix(p, "harness:") {
		x.co.violation("cfgwire", in.Type+": panic: "+p[:min(len(p), 80)], in, nil)
	} else if p != "" {
		panic(p)
	}
}

// every message type x both configuration values x zero / non-zero root; every recovery variant
func c17RunCfgWire(x *c17Runner, r *rng, seed uint64, n int) {
	idx := 0
	for variant := 0; variant <= 8; variant++ {
		reps := 1
		if variant >= 5 {
			reps = 2 + n/60
		}
		for rep := 0; rep < reps; rep++ {
			for cfg := 0; cfg < 4; cfg++ {
				if cfg >= 2 && variant != 1 && variant < 5 {
					continue // the zero-root variant matters only where a root is carried
				}
				idx++
				x.runCase("cfgwire", c17Input{Type: "consensus", Seed: seed, Idx: idx, N: variant<<2 | cfg})
			}
		}
	}
	if x.mode == "c17" {
		return
	}
	for i := 0; i < 2+n/40; i++ {
		for cfg := 0; cfg < 4; cfg++ {
			idx++
			x.runCase("cfgwire", c17Input{Type: "consensus-assembled", Seed: seed, Idx: idx, N: cfg})
			x.runCase("cfgwire", c17Input{Type: "blocks", Seed: seed, Idx: idx, N: cfg})
		}
	}
}
