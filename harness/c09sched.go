package main

// C09, schedules: one shared MemCachedStore over a base store, batch writers, Persist split into its three lock
// regions, and one reader split into its two real steps (snapshot under the read lock / read of the captured lower
// store). The interleaving is chosen by the harness, deterministically: the base store is wrapped in a gate that
// parks a goroutine at the entry of Seek and at the entry/exit of PutChangeSet, i.e. at points where the real code
// holds no lock; everything that runs between two gates is the unmodified implementation.
//
// input: {backend, ops: [{t:"w",batch:[[k,v|null]..]} | {t:"swap"} | {t:"lwrite"} | {t:"unswap"} | {t:"snap"} | {t:"read"}], q:{prefix,start,bw}}
// Ops that are not enabled are no-ops; a schedule is normalised before it is run (exactly one snap, one read after it,
// a pending Persist is completed before the read is forced) and the normalised list is what the Coq term carries.

import (
	"bytes"
	"context"
	"errors"
	"fmt"
	"os"
	"runtime"
	"sort"
	"time"

	"github.com/nspcc-dev/neo-go/pkg/core/storage"
)

type c09SOp struct {
	T     string       `json:"t"`
	Batch [][2]*string `json:"batch,omitempty"` // [key hex, value hex or null]
	I     int          `json:"i,omitempty"`     // wtop: which layer above the flushed one (0 = top)
}

type c09SInput struct {
	Backend string   `json:"backend"`
	Ops     []c09SOp `json:"ops"`
	Q       c09Query `json:"q"`
}

type c09Gate struct {
	storage.Store
	seekArmed             bool
	seekArrive, seekGo    chan struct{}
	putArmed              bool
	putArrive, putGo      chan struct{}
	putWritten, putGoExit chan struct{}
	settle                func() error
	failNext              bool // the next PutChangeSet returns an error and writes nothing (a rolled-back transaction)
}

var errC09Injected = errors.New("injected failure of the lower store's PutChangeSet")

func (g *c09Gate) Seek(rng storage.SeekRange, f func(k, v []byte) bool) {
	if g.seekArmed {
		g.seekArrive <- struct{}{}
		<-g.seekGo
	}
	g.Store.Seek(rng, f)
}

func (g *c09Gate) PutChangeSet(p, s map[string][]byte) error {
	if g.putArmed {
		g.putArrive <- struct{}{}
		<-g.putGo
	}
	if g.failNext {
		g.failNext = false
		return errC09Injected
	}
	err := g.Store.PutChangeSet(p, s)
	if err == nil && g.settle != nil {
		err = g.settle() // LevelDB: wait out the background compaction (deterministic state), see c09Stack.settle
	}
	if g.putArmed {
		g.putWritten <- struct{}{}
		<-g.putGoExit
	}
	return err
}

const c09StepTimeout = 120 * time.Second

// c09Stuck is returned when a forced-schedule step does not reach its waiting point in time: an infrastructure failure
// (never a violation). It dumps all goroutine stacks to stderr so that the log says where things stand.
func c09Stuck(where string) error {
	buf := make([]byte, 1<<20)
	n := runtime.Stack(buf, true)
	fmt.Fprintf(os.Stderr, "nghx c09: step %q did not complete within %s; goroutines:\n%s\n", where, c09StepTimeout, buf[:n])
	return fmt.Errorf("schedule step %q did not complete within %s (deadlock in the store under test, or a stalled machine)", where, c09StepTimeout)
}

// c09Wait receives from ch, giving up after c09StepTimeout so that a deadlock shows up as a failed run, not as a hang
func c09Wait(ch chan struct{}, where string) error {
	select {
	case <-ch:
		return nil
	case <-time.After(c09StepTimeout):
		return c09Stuck(where)
	}
}

// normalise: exactly one snap and one read after it; nothing else is touched
func c09NormSched(ops []c09SOp) []c09SOp {
	var out []c09SOp
	snapped, read := false, false
	for _, o := range ops {
		switch o.T {
		case "snap":
			if snapped {
				continue
			}
			snapped = true
		case "read":
			if !snapped || read {
				continue
			}
			read = true
		}
		out = append(out, o)
	}
	if !snapped {
		out = append(out, c09SOp{T: "snap"})
	}
	if !read {
		out = append(out, c09SOp{T: "lwrite"}, c09SOp{T: "unswap"}, c09SOp{T: "read"})
	}
	return out
}

// shadow of Store/Conc.v, Go side (labels only)
type c09Shadow struct {
	cm     map[string][]byte
	temp   map[string][]byte
	wrote  bool
	cx     map[string][]byte
	swapIn bool // a swap became effective between snap and read
}

func (sh *c09Shadow) flat() map[string][]byte {
	out := map[string][]byte{}
	for k, v := range sh.cx {
		out[k] = v
	}
	for _, m := range []map[string][]byte{sh.temp, sh.cm} {
		for k, v := range m {
			if v == nil {
				delete(out, k)
			} else {
				out[k] = v
			}
		}
	}
	return out
}

func c09RangeOf(m map[string][]byte, prefix, start []byte, bw bool) []c09KV {
	var out []c09KV
	for k, v := range m {
		if c09InRange(prefix, start, bw, []byte(k)) {
			out = append(out, c09KV{[]byte(k), v})
		}
	}
	sort.Slice(out, func(i, j int) bool {
		c := bytes.Compare(out[i].K, out[j].K)
		if bw {
			return c > 0
		}
		return c < 0
	})
	return out
}

func c09RunSched(co *caseOut, in c09SInput, dir string, seq int) error {
	ops := c09NormSched(in.Ops)
	in.Ops = ops
	base0, err := c09NewStack(in.Backend, dir, seq) // only for its base store
	if err != nil {
		return err
	}
	defer base0.close(dir, in.Backend, seq)
	g := &c09Gate{Store: base0.base,
		seekArrive: make(chan struct{}), seekGo: make(chan struct{}),
		putArrive: make(chan struct{}), putGo: make(chan struct{}),
		putWritten: make(chan struct{}), putGoExit: make(chan struct{})}
	g.settle = base0.settle
	L := storage.NewMemCachedStore(g)
	prefix, start := unhx(in.Q.Prefix), unhx(in.Q.Start)
	rng := storage.SeekRange{Prefix: prefix, Start: start, Backwards: in.Q.Bw}

	sh := &c09Shadow{cm: map[string][]byte{}, cx: map[string][]byte{}}
	var admissible [][]c09KV // range query on the one map at every instant from snap to read

	const (
		idle = iota
		swapped
		written
	)
	pstate := idle
	persistDone := make(chan error, 1)
	rstate := 0 // 0 none, 1 snapped, 2 done
	var (
		ch     chan storage.KeyValue
		cancel context.CancelFunc
		res    []c09KV
	)
	var coqActs []string
	for _, o := range ops {
		switch o.T {
		case "w":
			mem, stor := map[string][]byte{}, map[string][]byte{}
			var ents []string
			for _, e := range o.Batch {
				if e[0] == nil {
					continue
				}
				k := unhx(*e[0])
				var v []byte
				if e[1] != nil {
					v = unhx(*e[1])
					if v == nil {
						v = []byte{}
					}
				}
				if k[0] == byte(storage.STStorage) || k[0] == byte(storage.STTempStorage) {
					stor[string(k)] = v
				} else {
					mem[string(k)] = v
				}
				sh.cm[string(k)] = v
				ents = append(ents, fmt.Sprintf("(%s,%s)", coqBytes(k), coqOpt(coqBytes(v), v != nil)))
			}
			if err := L.PutChangeSet(mem, stor); err != nil {
				return err
			}
			coqActs = append(coqActs, "SW "+coqList(ents))
		case "swap":
			coqActs = append(coqActs, "SSwap")
			if pstate != idle {
				break
			}
			g.putArmed = true
			go func() { _, err := L.Persist(); persistDone <- err }()
			select {
			case <-time.After(c09StepTimeout):
				return c09Stuck("c09sched:select1")
			case <-g.putArrive:
				pstate = swapped
				sh.temp, sh.cm, sh.wrote = sh.cm, map[string][]byte{}, false
				if rstate == 1 {
					sh.swapIn = true
				}
			case err := <-persistDone: // nothing to persist
				g.putArmed = false
				if err != nil {
					return err
				}
			}
		case "lwrite":
			coqActs = append(coqActs, "SLw")
			if pstate != swapped {
				break
			}
			g.putGo <- struct{}{}
			if err := c09Wait(g.putWritten, "c09sched:g.putWritten"); err != nil {
				return err
			}
			pstate = written
			for k, v := range sh.temp {
				if v == nil {
					delete(sh.cx, k)
				} else {
					sh.cx[k] = v
				}
			}
			sh.wrote = true
		case "unswap":
			coqActs = append(coqActs, "SUn")
			if pstate != written {
				break
			}
			g.putGoExit <- struct{}{}
			if err := <-persistDone; err != nil {
				return err
			}
			g.putArmed = false
			pstate = idle
			sh.temp = nil
		case "snap":
			coqActs = append(coqActs, "SSnap")
			var ctx context.Context
			ctx, cancel = context.WithCancel(context.Background())
			g.seekArmed = true
			ch = L.SeekAsync(ctx, rng, false)
			if err := c09Wait(g.seekArrive, "c09sched:g.seekArrive"); err != nil { // (arrived: the goroutine has taken nothing from the lower store yet)
				return err
			}
			rstate = 1
		case "read":
			coqActs = append(coqActs, "SRead")
			if rstate != 1 {
				break
			}
			g.seekArmed = false
			g.seekGo <- struct{}{}
			for kv := range ch {
				res = append(res, c09KV{bytes.Clone(kv.Key), bytes.Clone(kv.Value)})
			}
			cancel()
			rstate = 2
		default:
			return fmt.Errorf("unknown schedule op %q", o.T)
		}
		if rstate == 1 {
			admissible = append(admissible, c09RangeOf(sh.flat(), prefix, start, in.Q.Bw))
		}
	}
	// let a still pending Persist finish (after the read; it no longer matters for the case)
	switch pstate {
	case swapped:
		g.putGo <- struct{}{}
		<-g.putWritten
		fallthrough
	case written:
		g.putGoExit <- struct{}{}
		<-persistDone
	}
	impl := map[string]any{"res": c09JSONKVs(res)}
	ok := false
	for _, a := range admissible {
		if c09SameKVs(a, res) {
			ok = true
			break
		}
	}
	tag := "quiet"
	if sh.swapIn {
		tag = "swap-in-window"
	}
	c09PerBackend[in.Backend]++
	if !ok {
		if sh.swapIn {
			impl["diag"] = []string{"new-swap-between-snapshot-and-lower-read"}
		} else {
			impl["diag"] = []string{"other"}
		}
	}
	co.add("sched", tag, len(admissible) >= 3, in, impl,
		fmt.Sprintf("CSched %d %s (R %s %s %s 0) %s", c09BackendNo[in.Backend], coqList(coqActs),
			coqBytes(prefix), coqBytes(start), coqBool(in.Q.Bw), c09CoqKVs(res)))
	return nil
}

func c09GenSched(r *rng) ([]c09SOp, c09Query) {
	keys := [][]byte{{0x70, 0x01}, {0x70, 0x02}, {0x70, 0x02, 0x00}, {0x70, 0x03}, {0x70, 0xff}, {0x71, 0x01}}
	n := 6 + r.intn(12)
	snapAt := r.intn(n)
	readAt := snapAt + 1 + r.intn(n-snapAt)
	var ops []c09SOp
	vseq := 0
	pst := 0
	for i := 0; i <= n; i++ {
		if i == snapAt {
			ops = append(ops, c09SOp{T: "snap"})
		}
		if i == readAt {
			ops = append(ops, c09SOp{T: "read"})
		}
		c := r.intn(100)
		switch {
		case c < 45:
			var batch [][2]*string
			used := map[int]bool{}
			for j := 0; j < 1+r.intn(3); j++ {
				ki := r.intn(len(keys))
				if used[ki] {
					continue
				}
				used[ki] = true
				k := hx(keys[ki])
				if r.chance(20) {
					batch = append(batch, [2]*string{&k, nil})
				} else {
					vseq++
					v := hx([]byte{byte(vseq)})
					batch = append(batch, [2]*string{&k, &v})
				}
			}
			ops = append(ops, c09SOp{T: "w", Batch: batch})
		case c < 90: // the next region of Persist, mostly in order
			ops = append(ops, c09SOp{T: []string{"swap", "lwrite", "unswap"}[pst]})
			pst = (pst + 1) % 3
		default:
			ops = append(ops, c09SOp{T: pick(r, []string{"swap", "lwrite", "unswap"})})
		}
	}
	q := c09Query{Prefix: "70", Bw: r.chance(30)}
	if !q.Bw && r.chance(25) { // (a backward seek with a start point is F2's ground; kept out of the schedules)
		q.Start = "02"
	}
	return ops, q
}
