package main

// The gas limit at its boundary values (after the eighth mutation round): every k-th script of the run is executed again
// with the price getter installed (1 datoshi per price unit) under the limits 0, 1, price of the first instruction -1 / exact
// / +1, total -1 / exact / +1: FAULT iff the consumption would exceed the limit - limit 0 is a finite limit: the first priced
// instruction faults -, HALT => consumed <= limit, each with a bound on the number of instructions so that an execution that
// does not stop is reported, and each compared with the model.  The same for gas charged by a SYSCALL handler (AddPicoGas).

import (
	"errors"
	"fmt"

	"github.com/nspcc-dev/neo-go/pkg/core/fee"
	"github.com/nspcc-dev/neo-go/pkg/smartcontract/scparser"
	"github.com/nspcc-dev/neo-go/pkg/util"
	"github.com/nspcc-dev/neo-go/pkg/vm"
	"github.com/nspcc-dev/neo-go/pkg/vm/opcode"
	"github.com/nspcc-dev/neo-go/pkg/vm/vmstate"
)

const c12SweepBase = 10000 // pico per price unit = 1 datoshi

func c12GasSweep(co *caseOut, script []byte) {
	const big = int64(1) << 40
	first := opcode.RET
	seen := false
	v := c13NewVM(c12SweepBase, big)
	ref := c13ExecBounded(v, script, 20000)
	loops := ref.Panic == c13StepBoundMsg // bounded by gas only: under every small limit it has to FAULT
	if (ref.Panic != "" && !loops) || len(ref.Stack) > 30000 {
		return
	}
	{
		v2 := c13NewVM(c12SweepBase, big)
		v2.SetOnExecHook(func(_ util.Uint160, _ int, op opcode.Opcode) {
			if !seen {
				first, seen = op, true
			}
		})
		v2.LoadScript(script)
		catch(func() { _ = v2.Step() })
	}
	p1 := fee.Opcode(c12SweepBase, first) / c12SweepBase
	t := ref.Gas
	cand := []int64{0, 1, p1 - 1, p1, p1 + 1, t - 1, t, t + 1}
	if loops {
		t = big
		cand = []int64{0, 1, p1 - 1, p1, p1 + 1, 100}
	}
	lims := map[int64]bool{}
	for _, l := range cand {
		if l >= 0 {
			lims[l] = true
		}
	}
	for l := range lims {
		in := c12Input{Script: hx(script), Base: c12SweepBase, Limit: l}
		r := c13ExecBounded(c13NewVM(c12SweepBase, l), script, ref.Steps+50)
		switch {
		case r.Panic == c13StepBoundMsg:
			co.violation("gas", fmt.Sprintf("did not stop within %d steps under limit %d (it needs %d instructions and %d units of gas without a limit)", ref.Steps+50, l, ref.Steps, t), in, r)
			continue
		case r.Panic != "":
			co.violation("gas", "Go panic escaped Run: "+r.Panic, in, r)
			continue
		case r.Halt && r.Gas > l:
			co.violation("gas", fmt.Sprintf("HALT with GasConsumed=%d > GasLimit=%d", r.Gas, l), in, r)
			continue
		case t > l && r.Halt:
			co.violation("gas", fmt.Sprintf("the script consumes %d but did not FAULT under limit %d", t, l), in, r)
			continue
		case t <= l && (r.Halt != ref.Halt || r.Gas != ref.Gas || r.Stack != ref.Stack || r.Steps != ref.Steps):
			co.violation("gas", fmt.Sprintf("limit %d >= consumption %d, yet the execution differs from the one without a limit", l, t), in, []c13Result{ref, r})
			continue
		}
		out := "fault"
		if r.Halt {
			out = "halt"
		}
		tag := "other"
		switch l {
		case 0:
			tag = "zero"
		case t:
			tag = "exact"
		case t - 1:
			tag = "one-short"
		}
		term := fmt.Sprintf("CTrace %s %d %d %d%%positive [] %s %s", coqBytes(script), c12SweepBase, l*10000, r.Steps+16, r.coq(),
			coqBool(c12StaticOK(script)))
		co.add("gas", tag+"/"+out, true, in, r, term)
	}
}

func c12StaticOK(script []byte) bool {
	ok := false
	catch(func() { ok = scparser.IsScriptCorrect(script, nil) == nil })
	return ok
}

// c12SyscallGas: gas charged by the SYSCALL handler (VM.AddPicoGas, as interops do): PUSH1; SYSCALL charging g; PUSH2 under
// the limits around 1+g and 2+g and under limit 0 - direct expectations
func c12SyscallGas(co *caseOut) {
	for _, g := range []int64{0, 1, 7} {
		for _, lead := range []bool{true, false} {
			var script []byte
			before := int64(0)
			if lead {
				script = append(script, byte(opcode.PUSH1))
				before = 1
			}
			script = append(script, byte(opcode.SYSCALL), 0, 8, byte(g), 0) // id = mode 8, off = g
			script = append(script, byte(opcode.PUSH2))
			total := before + g + 1
			for _, l := range []int64{0, 1, before + g - 1, before + g, before + g + 1, total, total + 1} {
				if l < 0 {
					continue
				}
				in := c12Input{Script: hx(script), Base: c12SweepBase, Limit: l}
				v := c13NewVM(c12SweepBase, l)
				v.SyscallHandler = func(v *vm.VM, id uint32) error {
					if err := v.AddPicoGas(int64(id>>16) * 10000); err != nil {
						return errors.New("insufficient amount of gas")
					}
					return nil
				}
				r := c13ExecBounded(v, script, 100)
				wantHalt := total <= l
				// the instruction at which it has to stop: the first one after which the consumption exceeds the limit
				cum := []int64{before + g, total}
				if lead {
					cum = []int64{before, before + g, total}
				}
				wantSteps := len(cum) + 1 // (with the implicit RET at the end)
				for i, c := range cum {
					if c > l {
						wantSteps = i + 1
						break
					}
				}
				switch {
				case r.Panic == "" && r.Steps != wantSteps:
					co.violation("gas", fmt.Sprintf("SYSCALL gas path: under limit %d the execution has to stop at instruction %d, it stopped at %d", l, wantSteps, r.Steps), in, r)
				case r.Panic != "":
					co.violation("gas", "SYSCALL gas path: "+r.Panic, in, r)
				case r.Halt != wantHalt || (v.State() != vmstate.Halt && v.State() != vmstate.Fault):
					co.violation("gas", fmt.Sprintf("SYSCALL gas path: consumption %d (of which %d charged by the handler) under limit %d: HALT=%v, expected %v", total, g, l, r.Halt, wantHalt), in, r)
				case r.Halt && r.Gas != total:
					co.violation("gas", fmt.Sprintf("SYSCALL gas path: consumed %d, expected %d", r.Gas, total), in, r)
				}
				co.hist["gas/syscall-direct"]++
			}
		}
	}
}
